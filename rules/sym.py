"""Static path enumeration with symbolic expressions (no solver, no execution):
walks every acyclic entry->return path of a MIR body and rebuilds, for each local, the expression
tree that defines it on that path.  Used for path-sum and mapping rules on small functions."""
from facts import is_place_op, is_transparent

# symbolic expressions are tuples:
#  ('const', value, text) ('param', n) ('call', callee, block, (args...)) ('bin', op, a, b)
#  ('cast', a, ty) ('un', op, a) ('field', a, name) ('agg', name, variant, (ops...)) ('ref', a)
#  ('deref', a) ('discr', a) ('unknown', why) ('index', a, i) ('variant', a, name)


class PathLimit(Exception):
    pass


def enum_paths(body, start=0, limit=5000, max_visits=1, stop_blocks=()):
    """all paths from `start` to a block without successors (return/unreachable) or in stop_blocks;
    a block may appear at most max_visits times on one path (loops are cut)."""
    out = []
    stop_blocks = set(stop_blocks)

    def rec(b, path, cnt):
        if len(out) > limit:
            raise PathLimit(body.path)
        path.append(b)
        cnt[b] = cnt.get(b, 0) + 1
        succ = body.succ[b]
        if not succ or b in stop_blocks:
            out.append(list(path))
        else:
            for s in succ:
                if cnt.get(s, 0) >= max_visits:
                    # back edge of a loop: the iteration ends here; emit the path cut at the loop head
                    out.append(list(path) + [s])
                    continue
                rec(s, path, cnt)
        cnt[b] -= 1
        path.pop()

    import sys
    sys.setrecursionlimit(max(10000, sys.getrecursionlimit()))
    rec(start, [], {})
    return out


class PathState:
    def __init__(self, body, prog=None):
        self.body = body
        self.prog = prog
        self.feasible = True
        self.discr_facts = {}
        self.cut = False
        self.cur = 0
        self.env = {}        # local -> expr ; ('f', local, fieldpath) -> expr for partial writes
        self.events = []     # ('call', Call, args_exprs) | ('branch', block, discr_expr, taken_value, target)
        self.raw_arrays = []  # array literals stored through a raw pointer on this path (the expansion of vec![a, b, ..])
        self.iters = {}       # id -> [elements, cursor]: iterators over a literal list (see _list_call)
        for i in range(1, body.arg_count + 1):
            self.env[i] = ('param', i)

    def place(self, pl):
        l = pl['l']
        e = self.env.get(l, ('unknown', 'undef _%d' % l))
        for p in pl['p']:
            k = p['k']
            if k == 'deref':
                if e[0] in ('ref', 'refm'):
                    e = e[1]
                elif e[0] == 'refl':
                    e = self.env.get(e[1], ('unknown', 'undef _%d' % e[1]))
                else:
                    e = ('deref', e)
            elif k == 'field':
                e = self.project(e, p['name'])
            elif k == 'downcast':
                e = ('variant', e, p['variant'])
            elif k == 'index':
                e = ('index', e, self.env.get(p['l'], ('unknown', 'idx')))
            elif k == 'cindex':
                e = ('index', e, ('const', p['offset'], str(p['offset'])))
            else:
                e = ('unknown', 'proj ' + k)
        return e

    def project(self, e, name):
        if e[0] == 'agg':
            fields = e[4] if len(e) > 4 else None
            if fields and name in fields:
                return e[3][fields.index(name)]
            if name.isdigit() and int(name) < len(e[3]):
                return e[3][int(name)]
        if e[0] == 'variant' and e[1][0] == 'agg':
            return self.project(e[1], name)
        if e[0] == 'closure' and name.isdigit() and int(name) < len(e[2]):
            return e[2][int(name)]          # captured variable of a closure built on this path (desugared combinators)
        if e[0] == 'variant' and name.isdigit():
            # `(helper(..)? as Continue).0` where the helper was inlined and built Ok(v) on this path: v itself (so that a tuple / struct
            # returned through `?` can be taken apart by the following projections)
            p = peel_payload(('field', e, name))
            if not (p[0] == 'field' and p[1] is e):
                return p
        return ('field', e, name)

    def operand(self, op):
        if not isinstance(op, dict):
            return ('unknown', 'op')
        if op.get('k') == 'const':
            if 'fn' in op:
                return ('fnconst', op['fn'])
            if 'promoted' in op:
                v = eval_promoted(self.body, op['promoted'])
                if v is not None:
                    return v
            return ('const', op.get('val'), op.get('sv') or op.get('s'))
        if is_place_op(op):
            return self.place(op['place'])
        return ('unknown', 'op')

    def rvalue(self, rv):
        k = rv['rv']
        if k == 'use':
            return self.operand(rv['op'])
        if k == 'cast':
            return ('cast', self.operand(rv['op']), rv['ty'])
        if k == 'bin':
            return ('bin', rv['op'], self.operand(rv['l']), self.operand(rv['r']))
        if k == 'un':
            return ('un', rv['op'], self.operand(rv['x']))
        if k in ('ref', 'rawptr'):
            pl = rv['place']
            if not pl['p']:
                return ('refl', pl['l'], rv.get('mut', False))
            if len(pl['p']) == 1 and pl['p'][0]['k'] == 'deref':
                inner = self.env.get(pl['l'])
                if inner is not None and inner[0] == 'refl':
                    return ('refl', inner[1], inner[2] and rv.get('mut', False))
            return ('refm' if rv.get('mut') else 'ref', self.place(pl))
        if k == 'discr':
            return ('discr', self.place(rv['place']), rv.get('ty'))
        if k == 'agg':
            if rv['kind'] == 'adt':
                return ('agg', rv['adt'], rv['variant'], tuple(self.operand(o) for o in rv['ops']), tuple(rv.get('fields', ())), rv.get('vi'))
            if rv['kind'] == 'closure':
                return ('closure', rv['closure'], tuple(self.operand(o) for o in rv['ops']))
            return ('agg', rv['kind'], '', tuple(self.operand(o) for o in rv['ops']), ())
        if k == 'repeat':
            return ('repeat', self.operand(rv['op']), rv['n'])
        return ('unknown', 'rv ' + k)

    def assign(self, pl, e):
        if not pl['p']:
            self.env[pl['l']] = e
        else:
            self.events.append(('store', self.cur, pl, e))
            if e[0] == 'agg' and e[1] == 'array' and pl['p'][0]['k'] == 'deref':
                self.raw_arrays.append(e)
            # partial write: remember checked-binop tuple fields and struct fields
            names = tuple(p['name'] for p in pl['p'] if p['k'] == 'field')
            if len(names) == len(pl['p']):
                cur = self.env.get(pl['l'])
                self.env[pl['l']] = ('upd', cur, names, e)
            elif len(pl['p']) == 1 and pl['p'][0]['k'] == 'deref':
                # write through a reference: *r = e
                r = self.env.get(pl['l'])
                if r and r[0] == 'refl':
                    self.env[r[1]] = e
            # else: ignore

    def _list_call(self, c, args):
        """literal lists: `vec![e1, .., ek]` / `[e1, .., ek]` and the iterator obtained from one by into_iter().  The k-th call of next()
        on such an iterator on a path returns Some(ek), the (k+1)-th None: a `for` loop over a literal list is thereby unrolled by the
        path enumeration (callers raise max_visits), every iteration seeing the element it really processes."""
        name = c.callee
        if name == 'std::boxed::box_assume_init_into_vec_unsafe' and self.raw_arrays:
            return ('list', self.raw_arrays[-1][3])
        if name in ('std::slice::<impl [T]>::into_vec', 'std::slice::hack::into_vec') and args:
            for n in (strip(args[0]),):
                if n[0] == 'call' and n[1].endswith('Box::<T>::new') and strip(n[3][0])[0] == 'agg' and strip(n[3][0])[1] == 'array':
                    return ('list', strip(n[3][0])[3])
        if name.endswith('IntoIterator>::into_iter') and args:
            a = strip(args[0])
            if a[0] == 'agg' and a[1] == 'array':
                a = ('list', a[3])
            if a[0] == 'list':
                uid = len(self.iters)
                self.iters[uid] = [a[1], 0]
                return ('listiter', uid)
        if name.endswith('as std::iter::Iterator>::next') and args:
            a = args[0]
            for _ in range(6):
                if a[0] == 'refl':
                    a = self.env.get(a[1], ('unknown', 'undef'))
                elif a[0] in ('ref', 'refm', 'cast', 'deref'):
                    a = a[1]
                else:
                    break
            if a[0] == 'listiter':
                it = self.iters[a[1]]
                it[1] += 1
                if it[1] <= len(it[0]):
                    return ('agg', 'std::option::Option', 'Some', (it[0][it[1] - 1],), ('0',), 1)
                return ('agg', 'std::option::Option', 'None', (), (), 0)
        return None

    def known_discr(self, d):
        """value of a switch discriminant when it is statically known on this path (constant, or the
        discriminant of an enum value built on this path), else None"""
        d = strip(d)
        if d[0] == 'const' and d[1] is not None:
            return d[1]
        if d[0] == 'discr':
            # the value whose discriminant is read: only wrappers that keep the value's identity are removed (a payload projection or a
            # conversion call yields a different value, whose discriminant is not the container's)
            x = d[1]
            while True:
                if x[0] in ('ref', 'deref', 'refm'):
                    x = x[1]
                elif x[0] == 'via' and (x[1].endswith('::Try>::branch') or x[1].endswith('::clone') or x[1].endswith('::borrow') or x[1].endswith('::as_ref') or x[1].endswith('::as_mut') or x[1].endswith('::deref') or x[1].endswith('::deref_mut')):
                    x = x[2]
                else:
                    y = peel_payload(x)
                    if y is x:
                        break
                    x = y
            if x[0] == 'call' and x[1].endswith('::from_residual'):
                return 1        # the value built from a residual is Err(..) / None-like: discriminant 1 for Result and for ControlFlow::Break
            if x[0] == 'agg' and len(x) > 5 and x[5] is not None:
                adt = x[1]
                if adt in ('std::result::Result', 'std::option::Option', 'std::ops::ControlFlow'):
                    return x[5]
                if self.prog is not None and adt in self.prog.adts:
                    for v in self.prog.adts[adt]['variants']:
                        if v['name'] == x[2]:
                            return v.get('discr', x[5])
        return None

    def deep(self, e, depth=0):
        """replace references to locals by the value the local holds now"""
        if depth > 12 or not isinstance(e, tuple):
            return e
        if e[0] == 'refl':
            return ('ref', self.deep(self.env.get(e[1], ('unknown', 'undef')), depth + 1))
        if e[0] in ('via',):
            return ('via', e[1], self.deep(e[2], depth + 1))
        if e[0] == 'cast':
            return ('cast', self.deep(e[1], depth + 1), e[2])
        if e[0] in ('ref', 'deref', 'refm'):
            return (e[0], self.deep(e[1], depth + 1))
        return e

    def step_block(self, b, next_block):
        body = self.body
        self.cur = b
        bl = body.blocks[b]
        for st in bl['stmts']:
            if st['s'] == 'assign':
                self.assign(st['place'], self.rvalue(st['rv']))
        t = bl['term']
        k = t['t']
        if k == 'call':
            c = body.call_at(b)
            args = tuple(self.operand(a) for a in c.args)
            if is_transparent(c.callee) and args:
                res = ('via', c.callee, args[0])
            else:
                res = ('call', c.callee, b, args)
            rargs = tuple(self.deep(a) for a in args)
            self.events.append(('call', c, args, rargs))
            lst = self._list_call(c, args)
            if lst is not None:
                self.assign(c.dest, lst)
                return
            if c.callee.endswith('::from_residual') and args:
                # `helper(..)?` of an inlined helper that returned Err(e) on this path: the function returns Err(e) (through From::from)
                x = self.deep(args[0])
                if x[0] == 'field' and x[1][0] == 'variant' and x[1][2] == 'Break':
                    x = x[1][1]         # the residual carried by Break(..) is the Err(..) value itself
                for _ in range(8):
                    if x[0] in ('ref', 'deref', 'refm'):
                        x = x[1]
                    elif x[0] == 'via' and x[1].endswith('::Try>::branch'):
                        x = x[2]
                    elif x[0] == 'refl':
                        x = self.env.get(x[1], ('unknown', 'undef'))
                    else:
                        break
                if x[0] == 'agg' and x[1] == 'std::result::Result' and x[2] == 'Err':
                    self.assign(c.dest, x)
                    return
            for a in args:
                r = root_mut_local(a) if not is_transparent(c.callee) else None
                if r is not None:
                    # the other arguments are kept (what was written); the object itself is represented by its previous value only
                    others = tuple(('self',) if root_mut_local(x) == r else y for x, y in zip(args, rargs))
                    self.env[r] = ('mutated', c.callee, b, self.env.get(r), others)
            self.assign(c.dest, res)
        elif k == 'switch' and next_block is not None:
            d = self.operand(t['discr'])
            cands = [v for v, tg in zip(t['vals'], t['targets']) if tg == next_block]
            via_otherwise = (t['otherwise'] == next_block)
            ds = strip(d)
            key = repr(ds[1]) if (ds[0] == 'discr' and _pure_place(ds[1])) else None
            if key is None and _pure_expr(ds) and t.get('discr_ty') == 'bool':
                key = 'bool:' + repr(ds)     # a boolean parameter / field of a parameter tested again on the same path
            prev = self.discr_facts.get(key) if key else None
            known = self.known_discr(d)
            if known is None and prev is not None and prev[0] == 'eq':
                known = prev[1]
            taken = None
            if known is not None:
                if known in cands:
                    taken = known
                elif known in t['vals'] or not via_otherwise:
                    self.feasible = False
                    taken = cands[0] if cands else None
            else:
                if cands and not via_otherwise:
                    taken = cands[0] if len(cands) == 1 else cands[0]
                elif cands and via_otherwise:
                    taken = cands[0]
                if prev is not None and prev[0] == 'notin':
                    cands2 = [v for v in cands if v not in prev[1]]
                    if not cands2 and not via_otherwise:
                        self.feasible = False
                    elif cands2:
                        taken = cands2[0]
                    else:
                        taken = None
            self.events.append(('branch', b, d, taken, next_block))
            if key:
                if taken is not None and len(cands) == 1 and not via_otherwise:
                    self.discr_facts[key] = ('eq', taken)
                elif taken is None and prev is None:
                    self.discr_facts[key] = ('notin', set(t['vals']))
        elif k == 'assert':
            pass


def _pure_place(e, depth=0):
    """expression is a place rooted at a parameter (fields / variants / derefs only)"""
    if depth > 20:
        return False
    if e[0] == 'param':
        return True
    if e[0] in ('field', 'variant', 'deref', 'ref', 'refm'):
        return _pure_place(e[1], depth + 1)
    return False


def _pure_expr(e, depth=0):
    """a value computed from parameters and constants only (the same expression tested twice on a path has the same truth value)"""
    if depth > 20 or not isinstance(e, tuple):
        return False
    if e[0] == 'const':
        return True
    if e[0] == 'bin':
        return _pure_expr(e[2], depth + 1) and _pure_expr(e[3], depth + 1)
    if e[0] in ('un',):
        return _pure_expr(e[2], depth + 1)
    if e[0] == 'cast':
        return _pure_expr(e[1], depth + 1)
    return _pure_place(e, depth)


_PROM_CACHE = {}


def eval_promoted(body, idx):
    """symbolic value of promoted constant #idx of `body` (a straight-line mini body)"""
    key = (id(body.j), idx)
    if key in _PROM_CACHE:
        return _PROM_CACHE[key]
    v = None
    try:
        pj = body.j['promoted'][idx]
        from facts import Body
        fake = Body({'path': body.path + '::promoted[%d]' % idx, 'kind': 'Promoted', 'blocks': pj['blocks'],
                     'locals': pj['locals'], 'arg_count': 0, 'span': {'file': body.file, 'line': body.line}}, body.crate)
        path = [0]
        while fake.succ[path[-1]] and len(path) < 50:
            path.append(fake.succ[path[-1]][0])
        st = PathState(fake)
        for i, b in enumerate(path):
            st.step_block(b, path[i + 1] if i + 1 < len(path) else None)
        v = st.deep(st.env.get(0))
    except Exception:
        v = None
    _PROM_CACHE[key] = v
    return v


def root_mut_local(e):
    """local mutably borrowed by this argument expression (through casts), else None"""
    while e[0] == 'cast':
        e = e[1]
    if e[0] == 'refl' and e[2]:
        return e[1]
    if e[0] == 'refm':
        x = e[1]
        for _ in range(20):
            if x[0] in ('deref', 'ref', 'refm', 'cast'):
                x = x[1]
            elif x[0] == 'via':
                x = x[2]
            elif x[0] == 'refl':
                return x[1]
            else:
                return None
    return None


_COMPAT = {'Continue': ('Ok', 'Some', 'Continue'), 'Break': ('Err', 'None', 'Break'), 'Ok': ('Ok',), 'Err': ('Err',), 'Some': ('Some',)}


def peel_payload(e):
    """`(X as V).i` where X is (a `?`-branch / unwrap / reference of) an aggregate built on the path with variant V: the i-th operand of that
    aggregate.  Unlike strip(), which identifies a payload with its container, this yields the payload itself.  Returns e unchanged otherwise."""
    if not isinstance(e, tuple) or not e:
        return e
    if e[0] == 'via' and (e[1].endswith('::unwrap') or e[1].endswith('::expect')):
        x = e[2]
        while x[0] in ('ref', 'deref', 'refm') or (x[0] == 'via' and x[1].endswith('::Try>::branch')):
            x = x[1] if x[0] != 'via' else x[2]
        if x[0] == 'agg' and x[2] in ('Some', 'Ok') and len(x[3]) == 1:
            return x[3][0]
        return e
    if e[0] == 'field' and e[1][0] == 'variant' and e[2].isdigit():
        x = e[1][1]
        while x[0] in ('ref', 'deref', 'refm') or (x[0] == 'via' and x[1].endswith('::Try>::branch')):
            x = x[1] if x[0] != 'via' else x[2]
        if x[0] == 'field' or x[0] == 'via':
            y = peel_payload(x)
            if y is not x:
                x = y
        if e[1][2] == 'Break' and x[0] == 'agg' and x[2] in ('Err', 'None'):
            return x            # the residual carried by `Break(..)` of `branch(Err(e))` is the value `Err(e)` itself
        if x[0] == 'agg' and x[2] in _COMPAT.get(e[1][2], (e[1][2],)) and int(e[2]) < len(x[3]):
            return x[3][int(e[2])]
    return e


def strip(e):
    """remove transparent wrappers, refs, value-preserving widening casts and checked-op tuple projections"""
    if e is None:
        return ('unknown', 'unset')
    while True:
        if e[0] == 'via':
            e = e[2]
        elif e[0] in ('ref', 'deref', 'refm'):
            e = e[1]
        elif e[0] == 'refl':
            return e
        elif e[0] == 'field' and e[2] == '0' and e[1][0] == 'bin' and e[1][1].endswith('WithOverflow'):
            e = ('bin', e[1][1][:-len('WithOverflow')], e[1][2], e[1][3])
        elif e[0] == 'field' and e[1][0] == 'variant' and e[1][2] in ('Continue', 'Break', 'Some', 'Ok', 'Err'):
            p = peel_payload(e)
            # payload of a Result/Option/ControlFlow value: the operand when the value was built on this path (an inlined `helper(..)?`),
            # otherwise identified with that value
            e = p if p is not e else e[1][1]
        elif e[0] == 'variant':
            e = e[1]
        else:
            return e


def run_path(body, path, prog=None):
    st = PathState(body, prog)
    st.cut = len(path) > 1 and path[-1] in path[:-1]      # ends on a loop back edge
    steps = path[:-1] if st.cut else path
    for i, b in enumerate(steps):
        nxt = path[i + 1] if i + 1 < len(path) else None
        st.step_block(b, nxt)
    if st.cut:
        st.env[0] = ('unknown', 'loop-cut')
    return st


def show(e, depth=0):
    if depth > 8:
        return '...'
    k = e[0]
    if k == 'const':
        return str(e[1]) if e[1] is not None else str(e[2])
    if k == 'param':
        return 'arg%d' % e[1]
    if k == 'call':
        return '%s@%d(%s)' % (e[1].rsplit('::', 1)[-1], e[2], ', '.join(show(a, depth + 1) for a in e[3]))
    if k == 'via':
        return show(e[2], depth)
    if k == 'bin':
        return '%s(%s, %s)' % (e[1], show(e[2], depth + 1), show(e[3], depth + 1))
    if k == 'cast':
        return '(%s as %s)' % (show(e[1], depth + 1), e[2])
    if k == 'un':
        return '%s(%s)' % (e[1], show(e[2], depth + 1))
    if k == 'field':
        return '%s.%s' % (show(e[1], depth + 1), e[2])
    if k in ('ref', 'deref', 'discr', 'refm'):
        return '%s(%s)' % (k, show(e[1], depth + 1))
    if k == 'agg':
        return '%s::%s(%s)' % (e[1], e[2], ', '.join(show(a, depth + 1) for a in e[3]))
    if k == 'variant':
        return '(%s as %s)' % (show(e[1], depth + 1), e[2])
    if k == 'mutated':
        return 'out<%s@%d>' % (e[1].rsplit('::', 2)[-2].split(' as ')[0].strip('<') + '::' + e[1].rsplit('::', 1)[-1], e[2])
    if k == 'refl':
        return '&_%d' % e[1]
    if k == 'upd':
        return 'upd(%s)' % show(e[3], depth + 1)
    return str(e)[:60]
