"""helpers shared by the per-property rule modules"""
import re
from facts import *   # noqa
from sym import enum_paths, run_path, strip, show, PathLimit, peel_payload


def ret_kind(e):
    """classify the symbolic return value of a path: 'ok', 'err', 'prop' (error propagated by ?),
    'call:<callee>' (result of a call returned as is) or 'unknown'"""
    e = strip(e)
    if e[0] == 'agg' and e[1] == 'std::result::Result':
        return 'ok' if e[2] == 'Ok' else 'err'
    if e[0] == 'call':
        if 'FromResidual' in e[1] and e[1].endswith('from_residual'):
            return 'prop'
        return 'call:' + e[1]
    return 'unknown'


def path_calls(st, pred=None):
    out = []
    for ev in st.events:
        if ev[0] == 'call' and (pred is None or match_name(ev[1].callee, pred) or match_name(ev[1].orig, pred)):
            out.append(ev)
    return out


def path_branches(st):
    return [ev for ev in st.events if ev[0] == 'branch']


def bool_edges(body, b):
    """for `switchInt(bool) {0: F} otherwise T` return (true_target, false_target) else None"""
    t = body.blocks[b]['term']
    if t['t'] != 'switch' or t.get('discr_ty') != 'bool':
        return None
    if t['vals'] == [0]:
        return (t['otherwise'], t['targets'][0])
    if t['vals'] == [1]:
        return (t['targets'][0], t['otherwise'])
    return None


def unwrap_cast(e):
    e = strip(e)
    while e[0] == 'cast':
        e = strip(e[1])
    return e


def same_value(a, b):
    """structural equality of two symbolic expressions up to casts/transparent wrappers"""
    a = unwrap_cast(a)
    b = unwrap_cast(b)
    if a[0] != b[0]:
        return False
    if a[0] in ('bin',):
        return a[1] == b[1] and same_value(a[2], b[2]) and same_value(a[3], b[3])
    if a[0] == 'un':
        return a[1] == b[1] and same_value(a[2], b[2])
    if a[0] == 'const':
        return a[1] == b[1] and (a[1] is not None or a[2] == b[2])
    if a[0] == 'field':
        return a[2] == b[2] and same_value(a[1], b[1])
    if a[0] == 'call':
        # two calls are the same value only if they are the same call site
        return a[1] == b[1] and a[2] == b[2]
    return a == b


def branch_truth(ev):
    """for a ('branch', block, discr, taken, target) event on a bool discriminant: True/False taken"""
    _, b, d, taken, tgt = ev
    if taken is None:
        return True     # otherwise edge of {0: F}
    return taken != 0


def where(body, b):
    return '%s:%d' % (body.file, body.block_line(b))


PURE_GETTERS = [
    # &self accessors whose result depends only on the receiver's current value (trait contract of Message::length;
    # Vec::len / slice::len): two calls on the same unmodified receiver denote the same value
    'model::data::Message::length', 'std::vec::Vec::<T, A>::len', 'core::slice::<impl [T]>::len',
    'std::slice::<impl [T]>::len',
]


def fold(e):
    """constant-fold a symbolic expression (checked ops, casts of constants)"""
    e = strip(e)
    if e[0] == 'bin':
        a, b = fold(e[2]), fold(e[3])
        if a[0] == 'const' and b[0] == 'const' and a[1] is not None and b[1] is not None:
            op = e[1].replace('WithOverflow', '').replace('Unchecked', '')
            x, y = a[1], b[1]
            try:
                v = {'Add': x + y, 'Sub': x - y, 'Mul': x * y, 'BitAnd': x & y, 'BitOr': x | y, 'BitXor': x ^ y,
                     'Shl': x << y if 0 <= y < 128 else None, 'Shr': x >> y if 0 <= y < 128 else None,
                     'Eq': int(x == y), 'Ne': int(x != y), 'Lt': int(x < y), 'Le': int(x <= y),
                     'Gt': int(x > y), 'Ge': int(x >= y)}.get(op)
            except Exception:
                v = None
            if v is not None:
                return ('const', v, str(v))
        return ('bin', e[1], a, b)
    if e[0] == 'cast':
        a = fold(e[1])
        if a[0] == 'const' and a[1] is not None:
            m = re.match(r'^[ui](8|16|32|64|128|size)$', e[2])
            if m:
                bits = 64 if m.group(1) == 'size' else int(m.group(1))
                v = a[1] & ((1 << bits) - 1)
                if e[2].startswith('i') and v >= (1 << (bits - 1)):
                    v -= (1 << bits)
                return ('const', v, str(v))
        return ('cast', a, e[2])
    if e[0] == 'un':
        a = fold(e[1])
        return ('un', e[1], a)
    return e


def same_pure(a, b):
    """same_value extended with pure getters: f(x) == f(x) for f in PURE_GETTERS"""
    a = unwrap_cast(a)
    b = unwrap_cast(b)
    if a[0] == 'call' and b[0] == 'call' and a[1] == b[1] and a[1] in PURE_GETTERS:
        return len(a[3]) == len(b[3]) and all(same_pure(x, y) for x, y in zip(a[3], b[3]))
    if a[0] == b[0] == 'bin':
        return a[1] == b[1] and same_pure(a[2], b[2]) and same_pure(a[3], b[3])
    if a[0] == b[0] == 'refl':
        return a[1] == b[1]
    return same_value(a, b)


def feasible_paths(body, prog=None, **kw):
    """(path, state) for every statically feasible acyclic entry->exit path (paths that contradict a
    discriminant/constant known on the path itself are pruned)"""
    out = []
    for path in enum_paths(body, **kw):
        st = run_path(body, path, prog)
        if st.feasible:
            out.append((path, st))
    return out


def walk(e, depth=0):
    """all sub-expressions of a symbolic expression"""
    if not isinstance(e, tuple) or depth > 60:
        return
    yield e
    for x in e[1:]:
        if isinstance(x, tuple):
            if x and isinstance(x[0], str):
                for y in walk(x, depth + 1):
                    yield y
            else:
                for z in x:
                    if isinstance(z, tuple):
                        for y in walk(z, depth + 1):
                            yield y


def calls_in(e, pred=None):
    """('call', callee, block, args) / ('mutated', callee, block, prev) / ('via', callee, arg) nodes inside e"""
    out = []
    for x in walk(e):
        if x[0] in ('call', 'mutated', 'via') and (pred is None or match_name(x[1], pred)):
            out.append(x)
    return out


def has_call(e, pred):
    return bool(calls_in(e, pred))


def consts_in(e):
    return [x for x in walk(e) if x[0] == 'const']


def resolve(st, e, depth=0):
    """replace references to locals by the locals' values at the end of the path (deep)"""
    if not isinstance(e, tuple) or depth > 40:
        return e
    if e[0] == 'refl':
        return ('ref', resolve(st, st.env.get(e[1], ('unknown', 'undef')), depth + 1))
    out = [e[0]]
    for x in e[1:]:
        if isinstance(x, tuple):
            if x and isinstance(x[0], str):
                out.append(resolve(st, x, depth + 1))
            else:
                out.append(tuple(resolve(st, z, depth + 1) if isinstance(z, tuple) else z for z in x))
        else:
            out.append(x)
    return tuple(out)


_OPCALL = {'shr': 'Shr', 'shl': 'Shl', 'bitand': 'BitAnd', 'bitor': 'BitOr', 'bitxor': 'BitXor', 'add': 'Add', 'sub': 'Sub', 'mul': 'Mul'}


def eval_int(e, env, depth=0):
    """integer value of a pure expression when every leaf in `env` (expr -> int) is given: constants, arithmetic / bit operators
    (also in their trait-call form `<&u8 as Shr<i32>>::shr`), integer casts, comparisons (0/1).  None when something else occurs."""
    e = strip(e)
    if e in env:
        return env[e]
    if depth > 40:
        return None
    if e[0] == 'const':
        return e[1]
    if e[0] == 'cast':
        v = eval_int(e[1], env, depth + 1)
        m = re.match(r'^[ui](8|16|32|64|128|size)$', e[2] or '')
        if v is None or not m:
            return None
        bits = 64 if m.group(1) == 'size' else int(m.group(1))
        v &= (1 << bits) - 1
        if e[2].startswith('i') and v >= (1 << (bits - 1)):
            v -= 1 << bits
        return v
    op = None
    if e[0] == 'bin':
        op, a, b = e[1].replace('WithOverflow', '').replace('Unchecked', ''), e[2], e[3]
    elif e[0] == 'call' and len(e[3]) == 2:
        m = re.search(r'std::ops::(\w+)<.*>>::(\w+)$', e[1])
        if m and m.group(2) in _OPCALL:
            op, a, b = _OPCALL[m.group(2)], e[3][0], e[3][1]
    if op is None:
        if e[0] == 'un' and e[1] == 'Not':
            v = eval_int(e[2], env, depth + 1)
            return None if v is None else ~v
        return None
    x, y = eval_int(a, env, depth + 1), eval_int(b, env, depth + 1)
    if x is None or y is None:
        return None
    try:
        return {'Add': x + y, 'Sub': x - y, 'Mul': x * y, 'BitAnd': x & y, 'BitOr': x | y, 'BitXor': x ^ y,
                'Shl': x << y if 0 <= y < 128 else None, 'Shr': x >> y if 0 <= y < 128 else None,
                'Eq': int(x == y), 'Ne': int(x != y), 'Lt': int(x < y), 'Le': int(x <= y), 'Gt': int(x > y), 'Ge': int(x >= y)}.get(op)
    except Exception:
        return None


def cmp_branch(st, ev):
    """normal form of a boolean branch event: (call-or-bin expression that was tested, truth of that test on this path) where negations
    (`!x`, `x == false`, `x != true`) and value-preserving wrappers are peeled off, so `if !helper(..)` after inlining reads like `if a != b`"""
    d = strip(resolve(st, ev[2]))
    truth = branch_truth(ev)
    for _ in range(6):
        d = strip(d)
        if d[0] == 'un' and d[1] == 'Not':
            d, truth = d[2], not truth
        elif d[0] == 'cast':
            d = d[1]
        elif d[0] == 'bin' and d[1] in ('Eq', 'Ne') and strip(d[3])[0] == 'const' and strip(d[3])[1] in (0, 1) and strip(d[2])[0] in ('call', 'un', 'bin'):
            want = bool(strip(d[3])[1])
            d, truth = d[2], (truth == want) if d[1] == 'Eq' else (truth != want)
        else:
            break
    return strip(d), truth


def chase_def(body, op, depth=6):
    """the rvalue that defines an operand, looking through plain copies of single-assignment locals (named or not)"""
    l = op_local(op)
    if l is None or (is_place_op(op) and op['place']['p']):
        return None
    for _ in range(depth):
        ds = body.defs.get(l, [])
        if len(ds) != 1 or ds[0][0] != 'stmt':
            return None
        rv = ds[0][3]['rv']
        if rv['rv'] == 'use' and is_place_op(rv['op']) and not rv['op']['place']['p']:
            l = rv['op']['place']['l']
            continue
        return rv
    return None


_BP_EMPTY = re.compile(r'Vec::<T>::(new|with_capacity)$|Vec::<T, A>::(new_in|with_capacity_in)$|String::new$')
_BP_APPEND = re.compile(r'Vec::<T, A>::(extend_from_slice|append|push)$|Extend<.*>>::extend$|io::Write>::write_all$|std::io::Write::write_all$')
_BP_CONCAT = re.compile(r'slice::<impl \[T\]>::concat$|Concat<.*>>::concat$')
_BP_THROUGH = re.compile(r'::to_vec$|::to_owned$|::clone$|::as_slice$|::as_ref$|::deref$|::deref_mut$|::into_vec$|::as_mut_slice$|Cursor::<T>::(new|into_inner|get_ref)$|::borrow$|::into$|::from$|::as_bytes$|'
                         r'Iterator::(collect|cloned|copied)$|<impl \[T\]>::iter$|IntoIterator>::into_iter$|Vec::<T, A>::iter$')
_BP_CHAIN = re.compile(r'Iterator::chain$')


def byte_parts(e, depth=0):
    """the ordered list of the pieces a byte buffer is concatenated from, whatever the concatenation idiom: `[a, b].concat()`,
    `let mut v = Vec::new(); v.extend_from_slice(a); v.extend_from_slice(b)`, `a.to_vec()` / references / clones of those.
    A piece that is itself such a buffer is flattened; anything else is a leaf (returned with wrappers removed)."""
    if depth > 40 or not isinstance(e, tuple):
        return [e]
    while True:
        if e[0] in ('ref', 'deref', 'refm'):
            e = e[1]
        elif e[0] == 'cast':
            e = e[1]
        elif e[0] == 'via':
            e = e[2]
        else:
            p = peel_payload(e)
            if p is e:
                break
            e = p
    if e[0] == 'call':
        if _BP_EMPTY.search(e[1]):
            return []
        if _BP_CONCAT.search(e[1]) and e[3]:
            arr = e[3][0]
            while arr[0] in ('ref', 'deref', 'refm', 'cast', 'via'):
                arr = arr[1] if arr[0] != 'via' else arr[2]
            if arr[0] == 'agg' and arr[1] == 'array':
                out = []
                for x in arr[3]:
                    out.extend(byte_parts(x, depth + 1))
                return out
            return [e]
        if _BP_THROUGH.search(e[1]) and len(e[3]) == 1:
            return byte_parts(e[3][0], depth + 1)
        if _BP_CHAIN.search(e[1]) and len(e[3]) == 2:
            # a.iter().chain(b.iter()).cloned().collect(): a followed by b
            return byte_parts(e[3][0], depth + 1) + byte_parts(e[3][1], depth + 1)
        return [e]
    if e[0] == 'mutated' and _BP_APPEND.search(e[1]):
        prev = byte_parts(e[3], depth + 1) if e[3] is not None else [('unknown', 'no previous value')]
        added = []
        for x in (e[4] if len(e) > 4 else ()):
            if x != ('self',):
                added.extend(byte_parts(x, depth + 1))
        return prev + added
    return [e]


def fold_enum(P, e, depth=0):
    """replace `discr(Enum::Variant)` (a field-less enum value built on the path, read through `as uN`) by the variant's declared discriminant"""
    if not isinstance(e, tuple) or depth > 60:
        return e
    if e and e[0] == 'discr' and isinstance(e[1], tuple):
        x = strip(e[1])
        if x[0] == 'agg' and x[1] in P.adts and not x[3]:
            for v in P.adts[x[1]]['variants']:
                if v['name'] == x[2] and v.get('discr') is not None:
                    return ('const', v['discr'], str(v['discr']))
    return tuple(fold_enum(P, x, depth + 1) if isinstance(x, tuple) else x for x in e)
