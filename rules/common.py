"""helpers shared by the per-property rule modules"""
import re
from facts import *   # noqa
from sym import enum_paths, run_path, strip, show, PathLimit


def ret_kind(e):
    """classify the symbolic return value of a path: 'ok', 'err', 'prop' (error propagated by ?),
    'call:<callee>' (result of a call returned as is) or 'unknown'"""
    e = strip(e)
    if e[0] == 'agg' and e[1] == 'std::result::Result':
        return 'ok' if e[2] == 'Ok' else 'err'
    if e[0] == 'call':
        if 'FromResidual' in e[1] and e[1].endswith('from_residual'):
            return 'prop'
        return 'call:' + e[1]
    return 'unknown'


def path_calls(st, pred=None):
    out = []
    for ev in st.events:
        if ev[0] == 'call' and (pred is None or match_name(ev[1].callee, pred) or match_name(ev[1].orig, pred)):
            out.append(ev)
    return out


def path_branches(st):
    return [ev for ev in st.events if ev[0] == 'branch']


def bool_edges(body, b):
    """for `switchInt(bool) {0: F} otherwise T` return (true_target, false_target) else None"""
    t = body.blocks[b]['term']
    if t['t'] != 'switch' or t.get('discr_ty') != 'bool':
        return None
    if t['vals'] == [0]:
        return (t['otherwise'], t['targets'][0])
    if t['vals'] == [1]:
        return (t['targets'][0], t['otherwise'])
    return None


def unwrap_cast(e):
    e = strip(e)
    while e[0] == 'cast':
        e = strip(e[1])
    return e


def same_value(a, b):
    """structural equality of two symbolic expressions up to casts/transparent wrappers"""
    a = unwrap_cast(a)
    b = unwrap_cast(b)
    if a[0] != b[0]:
        return False
    if a[0] in ('bin',):
        return a[1] == b[1] and same_value(a[2], b[2]) and same_value(a[3], b[3])
    if a[0] == 'un':
        return a[1] == b[1] and same_value(a[2], b[2])
    if a[0] == 'const':
        return a[1] == b[1] and (a[1] is not None or a[2] == b[2])
    if a[0] == 'field':
        return a[2] == b[2] and same_value(a[1], b[1])
    if a[0] == 'call':
        # two calls are the same value only if they are the same call site
        return a[1] == b[1] and a[2] == b[2]
    return a == b


def branch_truth(ev):
    """for a ('branch', block, discr, taken, target) event on a bool discriminant: True/False taken"""
    _, b, d, taken, tgt = ev
    if taken is None:
        return True     # otherwise edge of {0: F}
    return taken != 0


def where(body, b):
    return '%s:%d' % (body.file, body.block_line(b))
