#!/usr/bin/env python3
"""development helper: pretty-print a MIR body from a facts dir"""
import sys, json
sys.path.insert(0, __file__.rsplit('/',1)[0])
from facts import *
def dump(b):
    print('fn', b.path, b.where(), 'args', b.arg_count)
    for i,l in enumerate(b.locals):
        if l.get('name'): print('   _%d = %s : %s'%(i,l['name'],l['ty']))
    for i,bl in enumerate(b.blocks):
        if bl['cleanup']: continue
        print('bb%d:'%i)
        for st in bl['stmts']:
            if st['s']=='assign':
                rv=st['rv']; k=rv['rv']
                if k=='use': r=fmt_op(rv['op'],b)
                elif k=='cast': r='%s as %s (%s)'%(fmt_op(rv['op'],b),rv['ty'],rv['kind'])
                elif k=='bin': r='%s(%s, %s)'%(rv['op'],fmt_op(rv['l'],b),fmt_op(rv['r'],b))
                elif k=='un': r='%s(%s)'%(rv['op'],fmt_op(rv['x'],b))
                elif k=='ref': r='&%s%s'%('mut ' if rv['mut'] else '',fmt_place(rv['place'],b))
                elif k=='discr': r='discriminant(%s)'%fmt_place(rv['place'],b)
                elif k=='agg':
                    r='%s%s(%s)'%(rv.get('adt',rv['kind']), '::'+rv['variant'] if 'variant' in rv else '', ', '.join(fmt_op(o,b) for o in rv['ops']))
                    if rv['kind']=='closure': r='closure %s(%s)'%(rv['closure'], ', '.join(fmt_op(o,b) for o in rv['ops']))
                else: r=json.dumps(rv)[:120]
                print('    %s = %s   // l%d'%(fmt_place(st['place'],b), r, st['line']))
            else: print('    ', json.dumps(st)[:150])
        t=bl['term']; k=t['t']
        if k=='call':
            print('    %s = %s(%s) -> bb%s   // l%d %s'%(fmt_place(t['dest'],b), t.get('resolved') or t.get('callee') or fmt_op(t['func'],b), ', '.join(fmt_op(a,b) for a in t['args']), t.get('target'), t['span']['line'], t.get('resolved_kind','')))
        elif k=='switch':
            print('    switch %s %s otherwise bb%d'%(fmt_op(t['discr'],b), dict(zip(t['vals'],t['targets'])), t['otherwise']))
        elif k=='assert':
            m=t['msg']
            print('    assert(%s == %s) %s -> bb%d'%(fmt_op(t['cond'],b), t['expected'], {kk:(fmt_op(v,b) if isinstance(v,dict) else v) for kk,v in m.items()}, t['target']))
        elif k=='goto': print('    goto bb%d'%t['target'])
        elif k=='drop': print('    drop(%s) -> bb%d'%(fmt_place(t['place'],b), t['target']))
        else: print('    ', k)
if __name__=='__main__':
    p=Prog(sys.argv[1])
    for b in p.find(re.compile(sys.argv[2])): dump(b)
