"""C20 - the GUI receive thread keeps up with the server and stops with the session (DESIGN.md 4/C20)."""
from common import *

META = {
    'level': 'other',
    'configs': ['gui'],        # the receive thread lives in the GUI binary: only the mstsc-rs feature build contains it
    'explanation': 'CFG analysis of the receive-thread closure of the GUI binary (launch_rdp_thread::{closure#0}) and of the '
                   'library functions it relies on, on the MIR of the current tree: (R20.1) from the Err edge of '
                   'RdpClient::read\'s result the loop cannot be re-entered, for every error variant; (R20.2) the MutexGuard is '
                   'dropped on every path back to the blocking wait and the lock is taken inside the loop; (R20.3) anti-pattern '
                   'detector: every read is gated on a blocking select() of the raw descriptor while reads go through the '
                   'buffering TLS stream (recorded as a known finding); (R20.4) the callback forwards each Bitmap with exactly '
                   'one Sender::send; (R20.5) a disconnect-provider ultimatum is mapped to an error in mcs::Client::read; '
                   '(R20.6) sized stream reads use std read_exact so an orderly close surfaces as an error; (R20.7) every rectangle of every '
                   'update of a PDU reaches the callback once and in order (rules R10.1/R10.3 shared with C10). Timing and '
                   'scheduling clauses are not decided.',
    'assumptions': ['std::sync::mpsc::Sender::send is FIFO', 'std::io::Read::read_exact returns UnexpectedEof on a closed stream',
                    'only the Linux/macOS cfg of wait_for_fd is analysed'],
    'trusted_base': ['rustc nightly MIR construction', 'mirfacts exporter', 'rules/c20.py, sym.py, facts.py'],
}
META['explanation'] += ' (R20.10) RdpClient::read takes exactly one PDU from the MCS layer per call (no loop): the receive thread calls it with the client locked after one readiness notification.'

THREAD = 'mstsc_rs::launch_rdp_thread::{closure#0}'
CALLBACK = 'mstsc_rs::launch_rdp_thread::{closure#0}::{closure#0}'
RDP_READ = 'rdp::core::client::RdpClient::<S>::read'


def run(ctx):
    P = ctx.prog
    th = ctx.body(THREAD)
    reads = th.calls_to(RDP_READ)
    waits = th.calls_to('wait_for_fd')
    locks = th.calls_to('std::sync::Mutex::<T>::lock')
    ctx.check(len(reads) == 1 and len(waits) == 1 and len(locks) == 1, 'R20', 'thread:shape',
              'receive loop: one wait_for_fd, one lock, one RdpClient::read', th.where(),
              'receive thread closure no longer has the wait/lock/read shape (reads=%d waits=%d locks=%d)' % (len(reads), len(waits), len(locks)))
    if not (reads and waits and locks):
        return
    rd, wt, lk = reads[0], waits[0], locks[0]
    ctx.check(th.in_cycle(rd.block) and th.in_cycle(wt.block), 'R20', 'thread:loop', 'wait and read are inside the receive loop', rd.where())

    # ---- R20.1 every error leaves the loop ------------------------------------------------------
    res = rd.dest['l']
    err_edges = []
    for b in range(th.n):
        if th.blocks[b]['cleanup'] or b not in th.live_blocks:
            continue
        t = th.blocks[b]['term']
        if t['t'] == 'switch':
            # discriminant of the read result?
            o = t['discr']
            src = None
            for d in th.defs.get(op_local(o), []) if op_local(o) is not None else []:
                if d[0] == 'stmt' and d[3]['rv']['rv'] == 'discr' and d[3]['rv']['place']['l'] == res and not d[3]['rv']['place']['p']:
                    src = d
            if src is not None:
                sw = th.switch_edges(b)
                for v, tg in sw.items():
                    if v == 1 or (v == 'otherwise' and 1 not in sw and tg != sw.get(0)):
                        err_edges.append((b, tg))
    ctx.floor('R20.1', 'Err edges of the RdpClient::read result', len(err_edges), 1)
    for (b, tg) in err_edges:
        back = rd.block in th.reachable(tg) or wt.block in th.reachable(tg)
        ctx.check(not back, 'R20.1', 'thread:err_leaves_loop',
                  'from the Err edge of RdpClient::read (bb%d->bb%d) neither the wait nor the read can be reached again: every error ends the loop' % (b, tg),
                  rd.where(),
                  'the receive loop can be re-entered after RdpClient::read returned an error (some Err variants do not break): on a dead '
                  'socket select() reports readable at once and the thread spins holding the client')
    # the result is really inspected (not dropped)
    ctx.check(bool(err_edges), 'R20.1', 'thread:result_inspected', 'the result of RdpClient::read is matched', rd.where(),
              'the result of RdpClient::read is never inspected in the receive loop')

    # ---- R20.2 guard not held across the wait ---------------------------------------------------------
    guard_locals = [i for i, l in enumerate(th.locals) if l['ty'].startswith('std::sync::MutexGuard<')]
    drops = [b for b in range(th.n) if th.blocks[b]['term']['t'] == 'drop' and th.blocks[b]['term']['place']['l'] in guard_locals
             and not th.blocks[b]['term']['place']['p'] and not th.blocks[b]['cleanup']]
    start = rd.target if rd.target is not None else rd.block
    held_across = wt.block in th.reachable(start, avoid_blocks=drops)
    ctx.check(bool(drops) and not held_across, 'R20.2', 'thread:guard_dropped',
              'every path from the read back to the blocking wait drops the MutexGuard first (%d drop sites)' % len(drops), lk.where(),
              'the MutexGuard on the shared client can still be held when the thread blocks in wait_for_fd: input writes from the GUI thread would stall')
    ctx.check(th.in_cycle(lk.block) and th.dominates(wt.block, lk.block), 'R20.2', 'thread:lock_in_loop',
              'the lock is taken inside the loop, after the wait', lk.where(),
              'the client lock is not (re)taken inside the receive loop after the wait')

    # ---- R20.3 anti-pattern: raw-fd readiness gate in front of a buffering TLS stream ------------------
    wf = ctx.body('mstsc_rs::wait_for_fd')
    sel = wf.calls_to(re.compile(r'^libc::.*select$')) or wf.calls_to('libc::select')
    gate = th.dominates(wt.block, rd.block) and bool(sel)
    drains = [c for c in th.calls if re.search(r'buffered|pending|has_data|try_read|poll', c.callee)]
    main = ctx.body('mstsc_rs::main')
    rawfd = main.calls_to(re.compile(r'as_raw_fd$'))
    if gate and not drains and rawfd:
        ctx.fail('R20.3', 'thread:rawfd_gate',
                 'every RdpClient::read in the receive loop is gated on a blocking select() of the raw socket descriptor (wait_for_fd) while '
                 'the bytes are read through the buffering TLS stream and nothing drains already-decrypted data: PDUs packed into one TLS '
                 'record wait for further server traffic', wt.where())
    else:
        ctx.ok('R20.3', 'no raw-descriptor readiness gate in front of buffered reads', wt.where())

    # ---- R20.4 callback: one send per Bitmap ---------------------------------------------------------------
    # (the event callback is the closure created inside the receive-thread closure - or inside a method the thread closure only calls, which
    # the inliner has merged into it)
    cands = ctx.prog.closures_of(ctx.body(THREAD).path)
    cb = cands[0] if len(cands) == 1 else ctx.body(CALLBACK)
    n_b = 0
    for path, st in feasible_paths(cb, P):
        kind = None
        for ev in path_branches(st):
            d = strip(ev[2])
            if d[0] == 'discr' and unwrap_cast(d[1]) == ('param', 2) and kind is None:
                kind = ev[3]
        sends = path_calls(st, 'std::sync::mpsc::Sender::<T>::send')
        if kind == 0:
            n_b += 1
            good = len(sends) == 1
            if good:
                pay = unwrap_cast(sends[0][3][1])
                good = pay[0] in ('field', 'param') or ('param', 2) in list(walk(sends[0][2][1]))
            ctx.check(good, 'R20.4', 'callback:bitmap', 'a Bitmap event is forwarded with exactly one Sender::send of its payload', cb.where(),
                      'the receive callback does not forward a Bitmap event with exactly one Sender::send (%d sends)' % len(sends))
        else:
            ctx.check(not sends, 'R20.4', 'callback:other', 'other events send nothing on the bitmap channel', cb.where(),
                      'the receive callback sends a non-bitmap event on the bitmap channel')
    ctx.floor('R20.4', 'Bitmap paths of the callback', n_b, 1)

    # ---- R20.5 disconnect ultimatum -> error ------------------------------------------------------------------
    mr = ctx.body('core::mcs::Client::<S>::read')
    dpu = P.enum_discr('core::mcs::DomainMCSPDU', 'DisconnectProviderUltimatum')
    n = 0
    for path, st in feasible_paths(mr, P, limit=100000):
        for ev in path_branches(st):
            e = fold(resolve(st, ev[2]))
            if e[0] == 'bin' and e[1] == 'Eq' and fold(e[3])[0] == 'const' and fold(e[3])[1] == dpu and branch_truth(ev):
                lhs = unwrap_cast(e[2])
                if lhs[0] == 'bin' and lhs[1] == 'Shr' and fold(lhs[3])[1] == 2:
                    n += 1
                    v = strip(st.env.get(0))
                    kinds = [unwrap_cast(c[3][0])[2] for c in calls_in(resolve(st, v), 'model::error::RdpError::new') if c[0] == 'call' and unwrap_cast(c[3][0])[0] == 'agg']
                    ctx.check(ret_kind(v) == 'err' and kinds == ['Disconnect'], 'R20.5', 'mcs:ultimatum',
                              'header >> 2 == DisconnectProviderUltimatum (8) returns Err(Disconnect)', mr.where(),
                              'mcs::Client::read does not turn a disconnect-provider ultimatum into Err(Disconnect) (returns %s %s)' % (ret_kind(v), kinds))
    ctx.floor('R20.5', 'ultimatum paths in mcs::Client::read', n, 1)

    # ---- R20.6 orderly close surfaces as an error: sized reads are std read_exact ---------------------------------
    sre = ctx.body('model::link::Stream::<S>::read_exact')
    n_ok = 0
    for path, st in feasible_paths(sre, P):
        if ret_kind(st.env.get(0)) != 'ok':
            continue
        n_ok += 1
        exact = path_calls(st, 'std::io::Read::read_exact')
        plain = path_calls(st, 'std::io::Read::read')
        ctx.check(len(exact) == 1 and not plain, 'R20.6', 'stream_read_exact',
                  'Stream::read_exact is std read_exact (a closed stream yields UnexpectedEof, never a silent Ok)', sre.where(),
                  'Stream::read_exact is not std Read::read_exact: a read returning 0 at end of stream is not turned into an error, '
                  'so the receive thread never sees the closure')
    ctx.floor('R20.6', 'Ok paths of Stream::read_exact', n_ok, 2)

    # ---- R20.7 bitmap events received before the end are all forwarded, in order (shared with C10) ------------------
    import c10
    ctx.include(c10.run, ('R10.1', 'R10.3'), 'R20.7')

    # ---- R20.8 an empty frame never turns into "read whatever arrives next" (it would block holding the lock or swallow later PDUs) ----
    import c13
    ctx.include(c13.run, ('R13.4',), 'R20.8')
    # a sized link read waits for all of its bytes whatever the record / segment boundaries (rule R13.1): a PDU split over two TLS records is not truncated
    ctx.include(c13.run, ('R13.1', 'R13.5', 'R13.7'), 'R20.6')

    # ---- R20.10 one readiness notification = at most one blocking read: RdpClient::read takes exactly one PDU from the MCS layer per call and does
    # not loop.  The receive thread calls it with the shared client locked, after select() reported data; a second mcs.read() inside the same call
    # (skipping a PDU on another channel, retrying) blocks until the server speaks again with the mutex held, which stalls the GUI thread's input
    # writes and its shutdown -----------------------------------------------------------------------------------------------------------------
    rr = ctx.body('core::client::RdpClient::<S>::read')
    mr = [c for c in rr.calls if c.callee == 'core::mcs::Client::<S>::read']
    ctx.check(len(mr) == 1 and not rr.in_cycle(mr[0].block), 'R20.10', 'client_read:one_pdu', 'RdpClient::read performs exactly one mcs read, outside any loop', rr.where(),
              'RdpClient::read can perform more than one blocking mcs::Client::read per call (%d call site(s)%s): after select() reported one PDU the receive '
              'thread would block inside read with the client mutex held' % (len(mr), ', in a loop' if any(rr.in_cycle(c.block) for c in mr) else ''))

    # ---- R20.9 silence is not the end of the session: the readiness wait has no timeout whose expiry would leave the loop ---------
    wf = ctx.body('mstsc_rs::wait_for_fd')
    sel = [c for c in wf.calls if c.callee.rsplit('::', 1)[-1] == 'select']
    ctx.floor('R20.9', 'select() calls in wait_for_fd', len(sel), 1)
    for i, c in enumerate(sel):
        to = c.args[-1]
        srcs = [o.call.callee for o in origins(wf, to) if o.kind == 'call']
        consts = [o for o in origins(wf, to) if o.kind == 'const']
        null = bool(srcs) and all(re.search(r'ptr::null(_mut)?$', x) for x in srcs) and not [o for o in origins(wf, to) if o.kind not in ('call', 'const')]
        ctx.check(null, 'R20.9', 'select:no_timeout#%d' % i,
                  'select() waits without a timeout (null timeval): a silent server keeps the receive thread waiting, it does not end it', c.where(),
                  'wait_for_fd passes a timeout to select() (from %s): when it expires select returns 0, wait_for_fd returns false and the receive loop of '
                  'launch_rdp_thread ends although the session is alive' % (srcs or 'a local timeval'))
