"""Common harness: fact extraction from /repo, rule execution, known-findings handling, evidence."""
import json
import os
import shutil
import subprocess
import sys
import tempfile
import time
import traceback

VERIF = os.path.dirname(os.path.dirname(os.path.abspath(__file__)))
sys.path.insert(0, os.path.join(VERIF, 'rules'))

from facts import Prog  # noqa: E402


_ACTIVE_INCLUDES = []


class AnchorMissing(Exception):
    pass


class Ctx:
    """collects what a rule run analysed (instances) and what it found (findings)"""

    def __init__(self, prog, prop, tier='quick'):
        self.prog = prog
        self.prop = prop
        self.tier = tier
        self.findings = []      # dicts: rule, key, msg, where
        self.instances = []     # dicts: rule, what, where, verdict
        self.floors = []        # (rule, what, count, floor)
        self.notes = []
        self.obligations = 0
        self.discharged = 0
        self.extra = {}

    # an obligation = one thing a rule had to establish
    def ok(self, rule, what, where=''):
        self.obligations += 1
        self.discharged += 1
        self.instances.append({'rule': rule, 'what': what, 'where': where, 'verdict': 'holds'})

    def fail(self, rule, key, msg, where=''):
        self.obligations += 1
        self.findings.append({'rule': rule, 'key': '%s|%s' % (rule, key), 'msg': msg, 'where': where})
        self.instances.append({'rule': rule, 'what': msg, 'where': where, 'verdict': 'VIOLATED'})

    def check(self, cond, rule, key, what, where='', fail_msg=None):
        if cond:
            self.ok(rule, what, where)
        else:
            self.fail(rule, key, fail_msg or ('not established: ' + what), where)
        return cond

    def floor(self, rule, what, count, floor):
        """vacuity guard: a rule must match at least `floor` instances (numbers counted by hand)"""
        self.floors.append((rule, what, count, floor))
        if count < floor:
            self.fail(rule, 'floor:' + what, 'vacuity guard: %s matched %d instance(s), expected at least %d'
                      % (what, count, floor))
        else:
            self.ok(rule, 'vacuity guard: %s matched %d >= %d' % (what, count, floor))

    def note(self, s):
        self.notes.append(s)

    def include(self, module_run, rules, as_rule):
        """run another property's rule function and import the obligations of the listed rule ids (a rule shared by two
        properties is evaluated once per check run, on the same facts)"""
        if module_run in _ACTIVE_INCLUDES:
            return      # already being evaluated further up (A includes B includes A): the outer evaluation covers it
        _ACTIVE_INCLUDES.append(module_run)
        try:
            sub = Ctx(self.prog, self.prop, self.tier)
            module_run(sub)
        finally:
            _ACTIVE_INCLUDES.pop()
        for i in sub.instances:
            if i['rule'] in rules:
                if i['verdict'] == 'holds':
                    self.ok(as_rule, '[%s] %s' % (i['rule'], i['what']), i['where'])
        for f in sub.findings:
            r = f['key'].split('|', 1)[0]
            if r in rules:
                self.fail(as_rule, f['key'], f['msg'], f['where'])

    def body(self, path):
        try:
            return self.prog.body(path)
        except KeyError:
            raise AnchorMissing(path)


def extract(src, cfg='gui', keep=None):
    out = tempfile.mkdtemp(prefix='rdpfacts.', dir=os.environ.get('VERIF_SCRATCH', '/var/tmp'))
    r = subprocess.run([os.path.join(VERIF, 'bin', 'extract.sh'), src, out, cfg],
                       stdout=subprocess.PIPE, stderr=subprocess.PIPE, text=True)
    if r.returncode != 0:
        shutil.rmtree(out, ignore_errors=True)
        return None, (r.stdout + r.stderr)
    return out, ''


def load_known():
    p = os.path.join(VERIF, 'known_findings.json')
    if not os.path.exists(p):
        return []
    return json.load(open(p))['findings']


def run_property(prop, rule_fn, meta, argv=None):
    """meta: dict(level, explanation, assumptions, trusted_base, configs)"""
    import argparse
    ap = argparse.ArgumentParser()
    ap.add_argument('--tier', default=os.environ.get('VERIF_TIER', 'quick'))
    ap.add_argument('--src', default='/repo')
    ap.add_argument('--facts', default=None, help='reuse an extracted facts dir (development only)')
    ap.add_argument('--no-evidence', action='store_true')
    ap.add_argument('--quiet', action='store_true')
    args = ap.parse_args(argv)
    t0 = time.time()
    seed = int(os.environ.get('VERIF_SEED', '0') or 0)
    tier = 'thorough' if args.tier == 'thorough' else 'quick'

    configs = ['gui'] if tier == 'quick' else meta.get('configs', ['gui', 'lib', 'integration'])
    all_ctx = []
    rc = 0
    for cfg in configs:
        if args.facts and cfg == 'gui':
            fdir, cleanup = args.facts, False
        else:
            fdir, err = extract(args.src, cfg)
            cleanup = True
            if fdir is None:
                print(err)
                print('check %s: the tree under %s does not build in configuration %s; no verdict' % (prop, args.src, cfg))
                return 2
        try:
            prog = Prog(fdir)
            ctx = Ctx(prog, prop, tier)
            ctx.cfg = cfg
            try:
                rule_fn(ctx)
            except AnchorMissing as e:
                ctx.fail('anchor', 'missing:' + str(e), 'anchor not found in the type-checked program: %s '
                         '(the rule cannot be evaluated; failing closed)' % e)
            except Exception:
                tb = traceback.format_exc()
                ctx.fail('engine', 'exception', 'rule engine error (failing closed): ' + tb.strip().splitlines()[-1])
                sys.stderr.write(tb)
            all_ctx.append(ctx)
        finally:
            if cleanup:
                shutil.rmtree(fdir, ignore_errors=True)

    # merge findings over configurations (same key = same finding)
    findings = {}
    for ctx in all_ctx:
        for f in ctx.findings:
            findings.setdefault(f['key'], dict(f, configs=[]))['configs'].append(ctx.cfg)
    known = [k for k in load_known() if k['property'] == prop]
    known_keys = {k['key']: k for k in known if k.get('status') == 'known'}
    new = []
    matched_known = []
    for key, f in findings.items():
        if key in known_keys:
            matched_known.append((known_keys[key], f))
        else:
            new.append(f)
    for k, f in matched_known:
        print('KNOWN-FINDING: property=%s %s [%s] %s' % (prop, k['what'], f['where'], k['key']))
    evdir = os.path.join(VERIF, 'evidence')
    os.makedirs(evdir, exist_ok=True)
    replay = os.path.join(evdir, '%s.findings.json' % prop)
    if new:
        rc = 1
        for f in new:
            print('FINDING %s %s %s :: %s' % (prop, f['key'], f['where'], f['msg']))
        if not args.no_evidence:
            json.dump({'property': prop, 'new': new, 'known': [f for _, f in matched_known]}, open(replay, 'w'), indent=1)
        print('VIOLATION property=%s replay=%s' % (prop, replay))
    else:
        if os.path.exists(replay) and not args.no_evidence:
            os.remove(replay)

    main = all_ctx[0]
    if not args.quiet:
        print('check %s [%s]: %d obligations, %d established, %d new finding(s), %d known finding(s); configs=%s'
              % (prop, tier, sum(c.obligations for c in all_ctx), sum(c.discharged for c in all_ctx),
                 len(new), len(matched_known), ','.join(configs)))
    if not args.no_evidence:
        samples = []
        for inst in main.instances[:400]:
            samples.append('%s [%s] %s: %s' % (inst['rule'], inst['verdict'], inst['where'], inst['what']))
        rules = sorted(set(i['rule'] for i in main.instances))
        distinct = len(set((i['rule'], i['what'], i['where']) for c in all_ctx for i in c.instances))
        ev = {
            'property_id': prop,
            'tier': tier,
            'seed': seed,
            'level': meta.get('level', 'other'),
            'coverage': {
                'explanation': meta['explanation'],
                'evaluations': sum(c.obligations for c in all_ctx),
                'distinct_nontrivial': distinct,
                'rule': 'one evaluation = one static obligation (rule instance) decided on the MIR facts extracted from '
                        '/repo on this run; distinct = distinct (rule, instance, location) triples; an instance is '
                        'non-trivial because it is a concrete call site / CFG edge / arithmetic site / table row of the analysed program',
                'obligations': sum(c.obligations for c in all_ctx),
                'discharged': sum(c.discharged for c in all_ctx),
                'checker_cmd': './check %s --tier %s' % (prop, tier),
                'trusted_base': meta.get('trusted_base', []),
                'samples': samples,
                'rules_applied': rules,
                'bodies_analysed': {c.cfg: len(c.prog.bodies) for c in all_ctx},
                'configurations': configs,
                'vacuity_guards': [{'rule': r, 'what': w, 'count': c, 'floor': f} for (r, w, c, f) in main.floors],
                'known_findings_matched': [k['key'] for k, _ in matched_known],
                'new_findings': [f['key'] for f in new],
                'notes': main.notes,
                'exhaustive': True,
            },
            'assumptions': meta.get('assumptions', []),
            'wall_s': round(time.time() - t0, 2),
            'violations': len(new),
        }
        ev['coverage'].update(main.extra)
        json.dump(ev, open(os.path.join(evdir, '%s.json' % prop), 'w'), indent=1)
    return rc
