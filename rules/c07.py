"""C07 - hostile server bytes during NLA never crash the client (DESIGN.md 3, 4/C07)."""
from hpa_prop import run_hpa
import c05

META = dict(c05.META)
META['explanation'] = c05.META['explanation'].replace('connection-setup', 'CredSSP / NTLM (network level authentication)')

ENTRIES = ['nla::cssp::cssp_connect', 'nla::cssp::read_ts_server_challenge', 'nla::cssp::read_ts_validate', 'nla::cssp::read_public_certificate',
           '<nla::ntlm::Ntlm as nla::sspi::AuthenticationProtocol>::read_challenge_message',
           '<nla::ntlm::Ntlm as nla::sspi::AuthenticationProtocol>::create_negotiate_message',
           '<nla::ntlm::Ntlm as nla::sspi::AuthenticationProtocol>::build_security_interface',
           '<nla::ntlm::NTLMv2SecurityInterface as nla::sspi::GenericSecurityService>::gss_unwrapex',
           '<nla::ntlm::NTLMv2SecurityInterface as nla::sspi::GenericSecurityService>::gss_wrapex',
           'nla::ntlm::get_payload_field', 'nla::ntlm::read_target_info']
STOP = ['codec::', 'core::global', 'core::mcs', 'core::x224', 'core::tpkt', 'core::gcc', 'core::sec', 'core::license', 'core::client', 'core::event']


def run(ctx):
    run_hpa(ctx, ENTRIES, STOP, {'functions': 140, 'sites': 110}, 'NLA')
    # the exported session key that mic() / build_security_interface unwrap is set on every path of read_challenge_message, whatever the
    # server's NegotiateFlags (wiring rule R15.4 of C15, same facts): a key set only under a server-controlled flag makes the unwrap a
    # server-triggered panic
    import c15
    ctx.include(c15.run, ('R15.4',), 'R07.2')
