"""C07 - hostile server bytes during NLA never crash the client (DESIGN.md 3, 4/C07)."""
from hpa_prop import run_hpa
import c05

META = dict(c05.META)
META['explanation'] = c05.META['explanation'].replace('connection-setup', 'CredSSP / NTLM (network level authentication)')
META['explanation'] += " (R07.2 = R15.4) the exported session key is set on every path whatever the server flags; (R07.3) the SequenceOf element callback consumes input on every Ok path (yasna's read_sequence_of loops until it does not)."

ENTRIES = ['nla::cssp::cssp_connect', 'nla::cssp::read_ts_server_challenge', 'nla::cssp::read_ts_validate', 'nla::cssp::read_public_certificate',
           '<nla::ntlm::Ntlm as nla::sspi::AuthenticationProtocol>::read_challenge_message',
           '<nla::ntlm::Ntlm as nla::sspi::AuthenticationProtocol>::create_negotiate_message',
           '<nla::ntlm::Ntlm as nla::sspi::AuthenticationProtocol>::build_security_interface',
           '<nla::ntlm::NTLMv2SecurityInterface as nla::sspi::GenericSecurityService>::gss_unwrapex',
           '<nla::ntlm::NTLMv2SecurityInterface as nla::sspi::GenericSecurityService>::gss_wrapex',
           'nla::ntlm::get_payload_field', 'nla::ntlm::read_target_info']
STOP = ['codec::', 'core::global', 'core::mcs', 'core::x224', 'core::tpkt', 'core::gcc', 'core::sec', 'core::license', 'core::client', 'core::event']


def run(ctx):
    run_hpa(ctx, ENTRIES, STOP, {'functions': 140, 'sites': 110}, 'NLA')
    # the exported session key that mic() / build_security_interface unwrap is set on every path of read_challenge_message, whatever the
    # server's NegotiateFlags (wiring rule R15.4 of C15, same facts): a key set only under a server-controlled flag makes the unwrap a
    # server-triggered panic
    import c15
    ctx.include(c15.run, ('R15.4',), 'R07.2')
    # ---- R07.3 the element callback handed to yasna's read_sequence_of consumes input on every Ok path: yasna loops until the callback fails
    # *without having moved the read position*; a callback that returns Ok(()) without reading (an element cap, a filter) never terminates the loop,
    # i.e. a peer-chosen element count hangs the client
    from common import feasible_paths, path_calls, ret_kind
    P = ctx.prog
    n_cb = 0
    for k, b in sorted(P.bodies.items()):
        if b.kind != 'Closure' or 'SequenceOf as nla::asn1::ASN1>::read_asn1::{closure' not in k:
            continue
        for path, st in feasible_paths(b, P, limit=5000):
            if ret_kind(st.env.get(0)) != 'ok':
                continue
            from common import path_branches, strip
            # (a SequenceOf without element factory is a writer-side value: SequenceOf::reader(..) always sets one; that arm is not a read path)
            if any(strip(ev[2])[0] == 'discr' and strip(strip(ev[2])[1])[0] == 'field' and strip(strip(ev[2])[1])[2] == 'factory' and ev[3] in (0, None)
                   for ev in path_branches(st)):
                continue
            n_cb += 1
            rd = path_calls(st, 'nla::asn1::ASN1::read_asn1')
            ctx.check(len(rd) >= 1, 'R07.3', 'sequence_of:callback_reads', 'every Ok path of the SequenceOf element callback reads one element from the reader', b.where(),
                      'the SequenceOf element callback has an Ok path that reads nothing from the BER reader: yasna::read_sequence_of calls it again for ever '
                      '(the loop only ends when the callback fails without consuming input), so a TSRequest with enough negoTokens hangs the client')
    ctx.floor('R07.3', 'Ok paths of the SequenceOf element callback', n_cb, 1)
