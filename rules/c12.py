"""C12 - activation state machine: one finalization per demand-active, input gated (DESIGN.md 4/C12, Appendix A.1)."""
import json
import os
from common import *
from c02 import writers

META = {
    'level': 'other',
    'explanation': 'The activation automaton is *extracted* from the MIR of global::Client::read (every feasible path: state '
                   'tested at entry, reader called, boolean result, state stored, effects performed) and compared as a set of '
                   'transitions with the reference automaton spec/activation.json (MS-RDPBCGR 1.3.1.1). Further rules: the '
                   'readers accept exactly the expected PDU kinds (R12.1b), confirm-active/finalize occur once, in order, only '
                   'on the demand-active transition (R12.2), the callback is reachable only through read_fast_path in state '
                   'Data (R12.2b), write_input_event writes only in state Data and try_write forgives exactly InvalidAutomata '
                   '(R12.3), the state enum has the six reference states (R12.4), and no other code stores the state field; the '
                   'deactivate-all reset is present and guarded (R12.5).',
    'assumptions': ['derived PartialEq on field-less enums compares discriminants'],
    'trusted_base': ['rustc nightly MIR construction', 'mirfacts exporter', 'rules/c12.py, sym.py, facts.py', 'spec/activation.json'],
}

G = 'core::global::Client::'
READ = G + 'read'
STATE = 'core::global::ClientState'
READERS = [G + 'read_demand_active_pdu', G + 'read_synchronize_pdu', G + 'read_control_pdu', G + 'read_font_map_pdu',
           G + 'read_data_pdu', G + 'read_fast_path']
EFFECTS = [G + 'write_confirm_active_pdu', G + 'write_client_finalize']


def variant_of(e):
    for _ in range(4):
        p = peel_payload(e)
        if p is e:
            break
        e = p
    e = unwrap_cast(e)
    if e[0] == 'agg':
        return e[2]
    return None


def state_test(st, P):
    """value of the entry test(s) on self.state on this path -> variant name: the set of states compatible with every test of the state
    on the path (an or-pattern arm, an `if let Data` pre-test, a second `match` inside an arm), when it is a single state"""
    names = {d: n for n, d in P.enum_variants(STATE)}
    poss = None
    for ev in path_branches(st):
        d = strip(ev[2])
        if d[0] == 'discr':
            x = d[1]
            if x[0] == 'field' and x[2] == 'state':
                t = st.body.blocks[ev[1]]['term']
                here = set(v for v, tg in zip(t['vals'], t['targets']) if tg == ev[4])
                if t.get('otherwise') == ev[4]:
                    here |= set(names) - set(t['vals'])
                poss = here if poss is None else (poss & here)
    if poss is None:
        return None
    if len(poss) == 1:
        v = next(iter(poss))
        return names.get(v, '?%s' % v)
    return 'otherwise'


def cmp_events(st, P=None):
    """[(field name, enum variant, equal?)] for comparisons of an enum-typed field with a variant on the path:
    derived PartialEq eq/ne calls, and `match` arms (switch on the field's discriminant)"""
    out = []
    for ev in path_branches(st):
        d = strip(ev[2])
        if d[0] == 'discr' and P is not None and len(d) > 2 and d[2] in P.adts and ev[3] is not None:
            fld = None
            for n in walk(resolve(st, d[1])):
                if n[0] == 'field':
                    fld = n[2]
                    break
            for v in P.adts[d[2]]['variants']:
                if v.get('discr') == ev[3]:
                    out.append((fld, v['name'], True))
        if d[0] == 'call' and re.search(r'PartialEq(<.*>)?>?::(ne|eq)$', d[1]) and len(d[3]) == 2:
            a, b = resolve(st, d[3][0]), resolve(st, d[3][1])
            va, vb = variant_of(a), variant_of(b)
            truth = branch_truth(ev)
            equal = (not truth) if d[1].endswith('ne') else truth
            fld = None
            for n in walk(a if vb else b):
                if n[0] == 'field':
                    fld = n[2]
                    break
            out.append((fld, vb or va, equal))
    return out


def run(ctx):
    P = ctx.prog
    W = writers(P)
    ref = json.load(open(os.path.join(os.path.dirname(__file__), '..', 'spec', 'activation.json')))

    # ---- R12.4 ------------------------------------------------------------------------------------
    variants = [n for n, _ in P.enum_variants(STATE)]
    ctx.check(variants == ref['states'], 'R12.4', 'states', 'ClientState has exactly the reference states %s' % ref['states'], '',
              'ClientState variants %s differ from the reference automaton %s' % (variants, ref['states']))

    # ---- R12.1 / R12.2 : extract transitions from Client::read -------------------------------------
    rd = ctx.body(READ)
    got = set()
    n_paths = 0
    for path, st in feasible_paths(rd, P, limit=100000):
        rk = ret_kind(st.env.get(0))
        if rk == 'unknown' and strip(st.env.get(0))[0] == 'unknown':
            continue        # ends in `unreachable`
        n_paths += 1
        frm = state_test(st, P)
        calls = [ev for ev in st.events if ev[0] == 'call']
        readers = [ev for ev in calls if ev[1].callee in READERS]
        effects = tuple(ev[1].callee[len(G):] for ev in calls if ev[1].callee in EFFECTS)
        stores = [variant_of(ev[3]) for ev in st.events if ev[0] == 'store' and ev[2]['p'] and ev[2]['p'][-1].get('name') == 'state']
        reader = readers[0][1].callee[len(G):] if readers else None
        action = None
        if readers and readers[0][1].callee.endswith('read_control_pdu'):
            action = variant_of(readers[0][2][2])
        # payload kind tested
        kind = None
        for ev in path_branches(st):
            d = strip(ev[2])
            if d[0] == 'discr' and unwrap_cast(d[1]) == ('param', 2) and kind is None:
                # the first test of the payload kind (later ones are drop-elaboration re-tests)
                kind = {0: 'Raw', 1: 'FastPath'}.get(ev[3], 'FastPath' if ev[3] is None else str(ev[3]))
        # boolean result of the reader
        result = None
        for ev in path_branches(st):
            d = unwrap_cast(ev[2])
            if d[0] == 'call' and readers and d[2] == readers[0][1].block and d[1] == readers[0][1].callee:
                result = branch_truth(ev)
        if rk in ('prop', 'err') or rk.startswith('call:'):
            if rk.startswith('call:'):
                # tail call of read_data_pdu / read_fast_path: state Data
                got.add((frm, kind, reader, action, 'tail', None, effects))
                ctx.check(not stores, 'R12.1', 'read:store_on_tail', 'no state store on the Data path of read', rd.where())
            else:
                ctx.check(not stores, 'R12.1', 'read:store_on_error:%s' % frm,
                          'error exit from state %s stores no new state' % frm, where(rd, path[-2] if len(path) > 1 else 0),
                          'global::Client::read changes the state on a path that returns an error (from %s to %s)' % (frm, stores))
            continue
        to = stores[-1] if stores else None
        ctx.check(len(stores) <= 1, 'R12.1', 'read:multi_store:%s' % frm, 'at most one state store per path', rd.where())
        got.add((frm, kind, reader, action, result, to, effects))
    ctx.floor('R12.1', 'returning paths of global::Client::read', n_paths, 20)

    want = set()
    for t in ref['transitions']:
        want.add((t['from'], t['payload'], t['reader'], t.get('action'), t['result'], t.get('to'), tuple(t.get('effects', []))))
    for t in sorted(want - got, key=str):
        ctx.fail('R12.1', 'missing:%s' % (t,), 'the reference transition %s is not implemented by global::Client::read' % (t,), rd.where())
    for t in sorted(got - want, key=str):
        ctx.fail('R12.1', 'extra:%s' % (t,), 'global::Client::read implements %s which is not a transition of the reference automaton '
                 '(from, payload, reader, action, result, to, effects)' % (t,), rd.where())
    for t in sorted(got & want, key=str):
        ctx.ok('R12.1', 'transition %s matches the reference automaton' % (t,), rd.where())
    ctx.floor('R12.1', 'transitions extracted from MIR', len(got), 12)

    # ---- R12.1b readers accept exactly the expected PDU ------------------------------------------------
    expect = ref['readers']
    for rname, req in expect.items():
        body = ctx.body(G + rname)
        n_true = 0
        for path, st in feasible_paths(body, P, limit=100000):
            v = strip(st.env.get(0))
            if not (v[0] == 'agg' and v[2] == 'Ok'):
                continue
            val = fold(v[3][0])
            tail_eq = None
            if not (val[0] == 'const' and val[1] == 1):
                # `Ok(a == X && b == Y)`: the value returned is the last comparison itself; it is true exactly when that comparison holds
                d = strip(resolve(st, v[3][0]))
                if d[0] == 'call' and re.search(r'PartialEq(<.*>)?>?::eq$', d[1]) and len(d[3]) == 2:
                    a_, b_ = d[3]
                    va, vb = variant_of(a_), variant_of(b_)
                    fld = None
                    for n in walk(a_ if vb else b_):
                        if n[0] == 'field':
                            fld = n[2]
                            break
                    tail_eq = (fld, vb or va)
                else:
                    continue
            n_true += 1
            eqs = {(f, var) for f, var, equal in cmp_events(st, P) if equal}
            if tail_eq:
                eqs.add(tail_eq)
            need = {tuple(x) for x in req['equal']}
            ctx.check(need <= eqs, 'R12.1b', 'reader:%s' % rname,
                      '%s returns Ok(true) only after establishing %s' % (rname, sorted(need)), body.where(),
                      '%s returns Ok(true) on a path that establishes only %s (expected %s): the automaton would advance on the wrong PDU'
                      % (rname, sorted(eqs), sorted(need)))
            if req.get('action_compare'):
                # the action field is compared with the action parameter
                ok = False
                for ev in path_branches(st):
                    e = fold(resolve(st, ev[2]))
                    if e[0] == 'bin' and e[1] in ('Ne', 'Eq'):
                        sides = [e[2], e[3]]
                        has_field = any(any(c[2] == '"action"' or c[2] == 'const "action"' for c in consts_in(s_) if isinstance(c[2], str)) for s_ in sides)
                        has_param = any(('param', 3) in list(walk(s_)) for s_ in sides)
                        equal = (not branch_truth(ev)) if e[1] == 'Ne' else branch_truth(ev)
                        if has_field and has_param and equal:
                            ok = True
                ctx.check(ok, 'R12.1b', 'reader:%s:action' % rname, 'read_control_pdu compares the PDU action with the expected action parameter',
                          body.where(), 'read_control_pdu returns Ok(true) without the action field being equal to the expected action')
        ctx.floor('R12.1b', 'Ok(true) paths of %s' % rname, n_true, 1)

    # ---- R12.2b callback only through read_fast_path in Data ----------------------------------------
    fp_callers = P.caller_fns(G + 'read_fast_path')
    ctx.check(fp_callers == {READ}, 'R12.2', 'fastpath:callers', 'read_fast_path is called only from global::Client::read', '',
              'read_fast_path has callers %s' % sorted(fp_callers))
    # the callback parameter of read is forwarded only to read_fast_path
    cb_uses = [s for s in forward_uses(rd, 4) if s['sink'] != 'discr']
    good = all(s['sink'] == 'call' and s['call'].callee == G + 'read_fast_path' for s in cb_uses) and cb_uses
    ctx.check(good, 'R12.2', 'read:callback', 'the application callback is handed only to read_fast_path', rd.where(),
              'global::Client::read uses the application callback outside read_fast_path: %s' % [s.get('call') for s in cb_uses])
    eff_callers = set()
    for e in EFFECTS:
        eff_callers |= P.caller_fns(e)
    ctx.check(eff_callers == {READ}, 'R12.2', 'effects:callers', 'confirm-active / finalize are sent only from global::Client::read', '',
              'confirm-active/finalize have callers %s' % sorted(eff_callers))

    # ---- R12.3 input gate ---------------------------------------------------------------------------------
    wi = ctx.body(G + 'write_input_event')
    n_w = n_r = 0
    for path, st in feasible_paths(wi, P):
        calls = [ev for ev in st.events if ev[0] == 'call']
        wcalls = [ev for ev in calls if callee_in(P, ev[1], W)]
        frm = state_test(st, P)
        if wcalls:
            n_w += 1
            ctx.check(frm == 'Data', 'R12.3', 'input:write_state', 'input is written only in state Data', wi.where(),
                      'write_input_event writes to the channel in state %s' % frm)
        else:
            v = strip(st.env.get(0))
            if v[0] == 'unknown':
                continue
            n_r += 1
            kinds = [variant_of(c[3][0]) for c in calls_in(resolve(st, v), 'model::error::RdpError::new') if c[0] == 'call']
            ctx.check(ret_kind(v) == 'err' and kinds == ['InvalidAutomata'], 'R12.3', 'input:refusal',
                      'outside Data the event is refused with InvalidAutomata and nothing is written', wi.where(),
                      'write_input_event neither writes nor returns Err(InvalidAutomata) on a path from state %s (returns %s %s)' % (frm, ret_kind(v), kinds))
    ctx.floor('R12.3', 'writing paths of write_input_event', n_w, 1)
    ctx.floor('R12.3', 'refusing paths of write_input_event', n_r, 1)
    tw = ctx.body('core::client::RdpClient::<S>::try_write')
    kd = dict(P.enum_variants('model::error::RdpErrorKind'))
    n_forgive = 0
    for path, st in feasible_paths(tw, P):
        v = strip(st.env.get(0))
        if v[0] == 'agg' and v[2] == 'Ok':
            n_forgive += 1
            kinds = [ev[3] for ev in path_branches(st) if strip(ev[2])[0] == 'discr' and has_call(strip(ev[2]), 'model::error::RdpError::kind')]
            # the guard form: `Err(RdpError(ref e)) if e.kind() == RdpErrorKind::InvalidAutomata => Ok(())`
            for ev in path_branches(st):
                d = strip(ev[2])
                if d[0] == 'call' and re.search(r'PartialEq(<.*>)?>?::(ne|eq)$', d[1]) and len(d[3]) == 2:
                    a, b_ = resolve(st, d[3][0]), resolve(st, d[3][1])
                    if has_call(a, 'model::error::RdpError::kind') or has_call(b_, 'model::error::RdpError::kind'):
                        other = variant_of(b_ if has_call(a, 'model::error::RdpError::kind') else a)
                        equal = branch_truth(ev) != d[1].endswith('ne')
                        kinds.append(kd.get(other, 'unknown') if equal else 'not:%s' % other)
            ctx.check(kinds == [kd['InvalidAutomata']], 'R12.3', 'try_write:forgive',
                      'try_write turns an error into Ok only for kind InvalidAutomata', tw.where(),
                      'try_write swallows an error whose kind discriminant is %s (only InvalidAutomata=%s may be dropped)' % (kinds, kd['InvalidAutomata']))
    ctx.floor('R12.3', 'forgiving paths of try_write', n_forgive, 1)

    # ---- R12.5 stores of the state field anywhere ----------------------------------------------------------
    stores = []
    for b in P.bodies.values():
        for bi in range(b.n):
            if b.blocks[bi]['cleanup']:
                continue
            for stt in b.blocks[bi]['stmts']:
                if stt['s'] == 'assign' and stt['place']['p'] and stt['place']['p'][-1].get('name') == 'state' \
                        and stt['place']['p'][-1].get('owner') == 'core::global::Client':
                    stores.append(P.key_of(b))
    allowed = {READ, G + 'read_data_pdu'}
    ctx.check(set(stores) <= allowed and set(stores) == allowed, 'R12.5', 'state:writers',
              'the state field is stored only in %s' % sorted(allowed), '',
              'the state field is stored in %s (expected exactly %s)' % (sorted(set(stores)), sorted(allowed)))
    nw = ctx.body(G + 'new')
    init = None
    for bi in range(nw.n):
        for stt in nw.blocks[bi]['stmts']:
            if stt['s'] == 'assign' and stt['rv']['rv'] == 'agg' and stt['rv'].get('adt') == 'core::global::Client':
                i = stt['rv']['fields'].index('state')
                o = origins(nw, stt['rv']['ops'][i])
                for x in o:
                    if x.kind == 'agg' and x.extra.get('adt') == STATE:
                        init = x.extra['variant']
    ctx.check(init == ref['initial'], 'R12.5', 'state:initial', 'a new client starts in %s' % ref['initial'], nw.where(),
              'global::Client::new starts in state %s instead of %s' % (init, ref['initial']))
    dp = ctx.body(G + 'read_data_pdu')
    n_reset = 0
    n_deact = 0
    for path, st in feasible_paths(dp, P, limit=200000):
        stores_ = [variant_of(ev[3]) for ev in st.events if ev[0] == 'store' and ev[2]['p'] and ev[2]['p'][-1].get('name') == 'state']
        cmps = cmp_events(st, P)
        eqs = {(f, var) for f, var, equal in cmps if equal}
        neqs = {(f, var) for f, var, equal in cmps if not equal}
        deact = ('pdu_type', 'PdutypeDeactivateallpdu') in eqs
        # the tests a path makes on the PDU type must be satisfiable together: a path that requires the type to be two different values (or
        # to be and not to be one value) is dead code - a reset that sits behind an earlier "not a data PDU -> skip" test is never reached
        pt_eq = {var for f, var in eqs if f == 'pdu_type' and var and var.startswith('Pdutype') and not var.startswith('Pdutype2')}
        pt_ne = {var for f, var in neqs if f == 'pdu_type' and var and var.startswith('Pdutype') and not var.startswith('Pdutype2')}
        if len(pt_eq) > 1 or (pt_eq & pt_ne):
            if deact and stores_:
                ctx.fail('R12.5', 'reset:reachable', 'the deactivate-all reset of read_data_pdu is unreachable: the path to it requires pdu_type to be %s and not %s '
                         '(an earlier test on the PDU type already left for every deactivate-all); after a deactivate-all the client would ignore the next demand-active'
                         % (sorted(pt_eq), sorted(pt_ne)), dp.where())
            continue
        if deact:
            n_deact += 1
            ctx.check(stores_ == ['DemandActivePDU'], 'R12.5', 'reset:present',
                      'a deactivate-all PDU resets the state to DemandActivePDU', dp.where(),
                      'read_data_pdu handles deactivate-all without resetting the state to DemandActivePDU (stores %s)' % stores_)
        if stores_:
            n_reset += 1
            ctx.check(deact and stores_ == ['DemandActivePDU'], 'R12.5', 'reset:guarded',
                      'the only state store of read_data_pdu is the reset under pdu_type == deactivate-all', dp.where(),
                      'read_data_pdu stores state %s on a path where the PDU is not a deactivate-all' % stores_)
    ctx.floor('R12.5', 'deactivate-all paths in read_data_pdu', n_deact, 1)
    ctx.floor('R12.5', 'state-reset paths in read_data_pdu', n_reset, 1)


    # ---- R12.6 each demand-active is answered with *its* share id (rule R03.5 of C03, evaluated on the same facts) ----------------------
    import c03
    ctx.include(c03.run, ('R03.5',), 'R12.6')

def callee_in(P, call, W):
    k = call.callee if call.callee in P.bodies else call.body.crate + '::' + call.callee
    return k in W
