"""C01 - NLA releases credentials only after the server proves the session key (DESIGN.md 4/C01)."""
from common import *
from c02 import writers, try_continue_edges

META = {
    'level': 'other',
    'explanation': 'Path-complete static analysis of cssp_connect and of NTLMv2SecurityInterface::gss_unwrapex on the MIR of '
                   'the current tree. On every feasible path that reaches a credential source (get_password/get_user_name/'
                   'get_domain_name/create_ts_credentials) or the final link write, the rules require that the path went through '
                   'the `?` of gss_unwrapex and the equal edge of the big-integer comparison whose operands are, by provenance, '
                   'from_bytes_le(unsealed reply read from the link) and from_bytes_le(public key of the peer certificate of the '
                   'same link) + 1 (R01.1/R01.2); error exits perform no transport write (R01.3/R01.4); gss_unwrapex returns Ok '
                   'only on the equal edge of checksum == HMAC(verify_key, SeqNum || plaintext)[0..8] (R01.5); credential '
                   'accessors have no other callers (R01.6); the CredSSP replies are decoded with the DER parser, never the BER one (R01.7). The cryptographic strength of HMAC/RC4 is not decided.',
    'assumptions': ['num_bigint comparison/addition and from_bytes_le are exact (crate contract)',
                    'dropping the TLS stream on an error path writes no application data',
                    'HMAC-MD5/RC4 are not evaluated: "only the honest reply passes" rests on C16'],
    'trusted_base': ['rustc nightly MIR construction', 'mirfacts exporter', 'rules/c01.py, sym.py, facts.py'],
}
META['explanation'] += ' Shared rules: the whole received signature is bound (R01.8 = R16.1) and the session key reaches the server only wrapped under the key-exchange key (R01.9 = R15.4).'

CSSP = 'nla::cssp::cssp_connect'
LINK_WRITE = 'model::link::Link::<S>::write'
LINK_READ = 'model::link::Link::<S>::read'
UNWRAP = 'nla::sspi::GenericSecurityService::gss_unwrapex'
WRAP = 'nla::sspi::GenericSecurityService::gss_wrapex'
CRED_SOURCES = ['nla::sspi::AuthenticationProtocol::get_password', 'nla::sspi::AuthenticationProtocol::get_user_name',
                'nla::sspi::AuthenticationProtocol::get_domain_name', 'nla::cssp::create_ts_credentials']
NTLM_UNWRAP = '<nla::ntlm::NTLMv2SecurityInterface as nla::sspi::GenericSecurityService>::gss_unwrapex'


def key_field(e):
    """sub-expression `<x>.subject_public_key.data`; returns x's root call or None"""
    for n in walk(e):
        if n[0] == 'field' and n[2] == 'data':
            b = n[1]
            while b[0] in ('deref', 'ref', 'refm', 'via'):
                b = b[2] if b[0] == 'via' else b[1]
            if b[0] == 'field' and b[2] == 'subject_public_key':
                roots = calls_in(b, 'nla::cssp::read_public_certificate')
                return roots[0] if roots else ('noroot',)
    return None


def run(ctx):
    P = ctx.prog
    W = writers(P)
    cs = ctx.body(CSSP)
    paths = feasible_paths(cs, P, limit=200000)
    ctx.floor('R01', 'feasible paths of cssp_connect', len(paths), 20)

    n_cred = 0
    n_err_after = 0
    okpaths = 0
    for path, st in paths:
        calls = [ev for ev in st.events if ev[0] == 'call']
        rk = ret_kind(st.env.get(0))
        writes = [ev for ev in calls if ev[1].callee == LINK_WRITE]
        creds = [ev for ev in calls if ev[1].callee in CRED_SOURCES]
        third = writes[2:]      # anything written after the negotiate and the authenticate messages
        sensitive = creds + third
        if rk == 'ok':
            okpaths += 1
        if sensitive:
            n_cred += 1
            first = min(ev[1].block for ev in sensitive)
            first_idx = min(st.events.index(ev) for ev in sensitive)
            prior = st.events[:first_idx]
            # (a) the ? of gss_unwrapex continued
            unwrap_ok = False
            cmp_ok = False
            why = 'no comparison of the unsealed reply with the certificate key precedes it'
            for ev in prior:
                if ev[0] == 'branch':
                    d = strip(ev[2])
                    if d[0] == 'discr':
                        x = unwrap_cast(d[1])
                        if x[0] == 'call' and x[1] == UNWRAP and ev[3] == 0:
                            unwrap_ok = True
                    d, tr_ = cmp_branch(st, ev)
                    if d[0] == 'call' and re.search(r'(^std::cmp::PartialEq|as std::cmp::PartialEq(<.*>)?>)::(ne|eq)$', d[1]) and len(d[3]) == 2:
                        equal_edge = (tr_ is False) if d[1].endswith('ne') else (tr_ is True)
                        a, b = resolve(st, d[3][0]), resolve(st, d[3][1])
                        v = match_operands(st, path, cs, a, b) or match_operands(st, path, cs, b, a)
                        if v is True and equal_edge:
                            cmp_ok = True
                        elif v is True:
                            why = 'the comparison is taken on its NOT-equal edge'
                        elif isinstance(v, str):
                            why = v
            ctx.check(unwrap_ok and cmp_ok, 'R01.1', 'cssp:cred:%s' % ('ok' if rk == 'ok' else 'other'),
                      'credential use at bb%d is preceded on this path by gss_unwrapex(..)? and the equal edge of '
                      'BigUint::from_bytes_le(reply) == BigUint::from_bytes_le(peer key) + 1' % first,
                      where(cs, first),
                      'cssp_connect reaches credentials / the final write (bb%d) on a path where %s'
                      % (first, 'gss_unwrapex(..)? did not succeed first' if not unwrap_ok else why))
        # R01.3: error exits after the challenge was sent perform no further transport write
        if rk in ('err', 'prop') and len(writes) >= 2:
            n_err_after += 1
            # find the decision point: last branch event
            last_br = max(i for i, ev in enumerate(st.events) if ev[0] == 'branch')
            after = [ev for ev in st.events[last_br:] if ev[0] == 'call' and callee_key(P, ev[1]) in W]
            ctx.check(not after, 'R01.3', 'cssp:errexit',
                      'error exit (after the challenge round) writes nothing further on the link', where(cs, path[-2] if len(path) > 1 else 0),
                      'cssp_connect writes to the link (%s) after deciding to fail' % [ev[1].callee for ev in after])
            ctx.check(len(writes) <= 2 or rk == 'prop', 'R01.3', 'cssp:errwrites',
                      'a failing path never carries the credential write', where(cs, path[-2] if len(path) > 1 else 0),
                      'cssp_connect returns an explicit error on a path that already wrote the credentials')
    ctx.floor('R01.1', 'paths reaching a credential source or the third link write', n_cred, 1)
    ctx.floor('R01.3', 'error paths after the challenge round', n_err_after, 5)
    ctx.floor('R01.1', 'Ok paths of cssp_connect', okpaths, 1)

    # the credential write really is the third write and carries get_password via create_ts_credentials -> gss_wrapex
    for path, st in paths:
        if ret_kind(st.env.get(0)) != 'ok':
            continue
        writes = path_calls(st, LINK_WRITE)
        good = len(writes) == 3
        if good:
            m = resolve(st, writes[2][2][1])
            good = has_call(m, 'nla::cssp::create_ts_authinfo') and has_call(m, WRAP) and has_call(m, 'nla::cssp::create_ts_credentials')
            m1 = resolve(st, writes[0][2][1])
            m2 = resolve(st, writes[1][2][1])
            good = good and not has_call(m1, CRED_SOURCES) and not has_call(m2, CRED_SOURCES)
            # the key sealed into the second message is the same certificate key that is compared later
            k2 = key_field(m2)
            good = good and k2 is not None and k2[0] == 'call'
        ctx.check(good, 'R01.2', 'cssp:messages',
                  'Ok path: three link writes; only the third carries create_ts_credentials (sealed by gss_wrapex); the second seals the peer key',
                  cs.where(), 'cssp_connect Ok path does not have the negotiate / authenticate(+sealed key) / sealed-credentials message structure')

    # ---- R01.4 callers: an error from CredSSP leaves without writing -------------------------------
    chain = [('core::tpkt::Client::<S>::start_nla', CSSP), ('core::x224::Client::<S>::connect', 'core::tpkt::Client::<S>::start_nla'),
             ('core::client::Connector::connect', 'core::x224::Client::<S>::connect')]
    for fn, callee in chain:
        body = ctx.body(fn)
        n = 0
        for path, st in feasible_paths(body, P):
            evs = st.events
            for i, ev in enumerate(evs):
                if ev[0] == 'branch':
                    d = strip(ev[2])
                    if d[0] == 'discr':
                        x = unwrap_cast(d[1])
                        if x[0] == 'call' and x[1] == callee and ev[3] == 1:
                            n += 1
                            after = [e for e in evs[i:] if e[0] == 'call' and callee_key(P, e[1]) in W]
                            ctx.check(not after, 'R01.4', 'caller:%s' % fn,
                                      '%s: when %s fails nothing more is written' % (fn.rsplit('::', 1)[-1], callee.rsplit('::', 1)[-1]),
                                      where(body, ev[1]), '%s writes to the transport (%s) after %s failed'
                                      % (fn, [e[1].callee for e in after], callee))
        ctx.floor('R01.4', 'failure edges of %s in %s' % (callee.rsplit('::', 1)[-1], fn.rsplit('::', 1)[-1]), n, 1)

    # ---- R01.5 checksum verification in gss_unwrapex ---------------------------------------------
    gu = ctx.body(NTLM_UNWRAP)
    n_ok = 0
    for path, st in feasible_paths(gu, P):
        if ret_kind(st.env.get(0)) != 'ok':
            continue
        n_ok += 1
        verdict = 'no slice comparison on the path'
        good = False
        for ev in path_branches(st):
            d, tr_ = cmp_branch(st, ev)
            if d[0] == 'call' and re.search(r'PartialEq.*::(ne|eq)$', d[1]) and len(d[3]) == 2:
                equal_edge = (tr_ is False) if d[1].endswith('ne') else (tr_ is True)
                a, b = resolve(st, d[3][0]), resolve(st, d[3][1])
                for x, y in ((a, b), (b, a)):
                    v = match_checksum(st, x, y)
                    if v is True:
                        good = equal_edge
                        verdict = 'comparison taken on the not-equal edge' if not equal_edge else ''
                    elif isinstance(v, str) and not good:
                        verdict = v
        # returned plaintext is the decrypted payload
        rv = resolve(st, strip(st.env.get(0))[3][0])
        pl_ok = any(c[0] == 'mutated' and c[1] == 'nla::rc4::Rc4::process' for c in calls_in(rv)) or has_call(rv, 'nla::rc4::Rc4::process')
        ctx.check(good, 'R01.5', 'unwrap:checksum',
                  'gss_unwrapex returns Ok only on the equal edge of decrypt(Checksum) == hmac_md5(verify_key, SeqNum || decrypt(payload))[0..8]',
                  gu.where(), 'NTLMv2SecurityInterface::gss_unwrapex can return Ok without the checksum comparison required by MS-NLMP: ' + verdict)
        ctx.check(pl_ok, 'R01.5', 'unwrap:payload', 'the value returned is the decrypted payload', gu.where())
    ctx.floor('R01.5', 'Ok paths of gss_unwrapex', n_ok, 1)

    # ---- R01.6 who may call -------------------------------------------------------------------------
    allowed = {'nla::sspi::AuthenticationProtocol::get_password': {CSSP},
               'nla::cssp::create_ts_credentials': {CSSP},
               CSSP: {'core::tpkt::Client::<S>::start_nla'}}
    for callee, okset in allowed.items():
        callers = set()
        for b in P.bodies.values():
            for c in b.calls:
                if (c.callee == callee or c.orig == callee) and P.key_of(b) in P.known_functions:
                    callers.add(P.key_of(b))
        ctx.check(callers and callers <= okset, 'R01.6', 'callers:%s' % callee,
                  '%s is called only from %s' % (callee.rsplit('::', 1)[-1], sorted(okset)), '',
                  '%s has unexpected callers: %s' % (callee, sorted(callers - okset)))

    # ---- R01.7 the CredSSP replies are parsed as DER: a re-framed (BER: indefinite length, segmented octet string, long-form short length)
    #      reply is "malformed encoding" and must be refused like any other reply ------------------------------------------------------------
    n_der = 0
    for fn in ('nla::cssp::read_ts_validate', 'nla::cssp::read_ts_server_challenge'):
        rb = ctx.body(fn)
        reach = P.reachable_bodies([fn])
        names = set()
        for k_, bd in reach.items():
            if k_.startswith('nla::cssp::') or k_.startswith('nla::asn1::from_'):
                names |= {c.callee for c in bd.calls}
        der = [n for n in names if re.search(r'yasna::parse_der$|nla::asn1::from_der$', n)]
        ber = [n for n in names if re.search(r'yasna::parse_ber(_general)?$|nla::asn1::from_ber$', n)]
        n_der += len(der)
        ctx.check(bool(der) and not ber, 'R01.7', 'der:%s' % fn.rsplit('::', 1)[-1], '%s decodes its input with the DER parser' % fn.rsplit('::', 1)[-1], rb.where(),
                  '%s decodes the server reply with a BER parser (%s): encodings that are not DER (indefinite length, constructed octet strings, non-minimal '
                  'lengths) are accepted although the property requires every malformed encoding to be refused' % (fn, [n.rsplit('::', 1)[-1] for n in ber] or 'no DER parser found'))
    ctx.floor('R01.7', 'DER parser calls in the CredSSP readers', n_der, 2)

    # ---- R01.8 the whole received signature is bound: Version is a checked constant, Checksum and SeqNum enter the comparison (layout rule
    # R16.1 of C16, same facts): a signature field that is neither checked nor covered by the HMAC accepts corrupted tokens
    import c16
    ctx.include(c16.run, ('R16.1',), 'R01.8')
    # ---- R01.9 the session key reaches the server only wrapped under the key-exchange key (wiring rule R15.4 of C15): a key sent in clear, or
    # chosen by the server's flags, lets a server that does not know the password produce the `public key + 1` proof
    import c15
    ctx.include(c15.run, ('R15.4',), 'R01.9')


def callee_key(P, call):
    return call.callee if call.callee in P.bodies else (call.body.crate + '::' + call.callee)


def match_operands(st, path, body, s, k):
    """s = from_bytes_le(gss_unwrapex(read_ts_validate(Link::read(link)))) ; k = from_bytes_le(cert key) + 1
    returns True, or a string saying what is wrong, or None if these are not the operands at all"""
    s0 = unwrap_cast(s)
    k0 = unwrap_cast(k)
    if not (k0[0] == 'call' and k0[1].endswith('as std::ops::Add>::add')):
        if has_call(s, UNWRAP) and (key_field(k) is not None):
            return 'the unsealed reply is compared with the public key without adding 1 through BigUint addition'
        return None
    if not has_call(s, UNWRAP):
        return None
    if not (s0[0] == 'call' and s0[1] == 'num_bigint::BigUint::from_bytes_le'):
        return 'the unsealed reply is not converted with BigUint::from_bytes_le (MS-CSSP increments the first, least significant byte)'
    if has_call(s, 'std::ops::Add>::add'):
        return 'the reply side of the comparison is modified by an addition'
    chain_ok = has_call(s, 'nla::cssp::read_ts_validate') and any(
        unwrap_cast(c[3][0]) == ('param', 1) or ('param', 1) in list(walk(c[3][0])) for c in calls_in(s, LINK_READ) if c[0] == 'call')
    if not chain_ok:
        return 'the compared reply is not read_ts_validate(link.read(..)) of this link'
    x, y = unwrap_cast(k0[3][0]), unwrap_cast(k0[3][1])
    for x, y in ((x, y), (y, x)):
        if x[0] == 'call' and x[1] in ('num_bigint::BigUint::from_bytes_le', 'num_bigint::BigUint::from_bytes_be') and y[0] == 'call' \
                and y[1] == 'num_bigint::BigUint::new':
            if x[1] != 'num_bigint::BigUint::from_bytes_le':
                return 'the certificate key is converted with from_bytes_be while MS-CSSP increments the little-endian integer'
            root = key_field(x)
            if root is None or root[0] != 'call':
                return 'the compared key is not subject_public_key.data of read_public_certificate(..)'
            cert_ok = has_call(root, 'native_tls::Certificate::to_der') and any(
                ('param', 1) in list(walk(c)) for c in calls_in(root, 'model::link::Link::<S>::get_peer_certificate'))
            if not cert_ok:
                return 'the compared key does not come from the peer certificate of this link'
            # the increment: exactly one array literal [1] feeds BigUint::new on this path
            incs = []
            for b in path:
                for stt in body.blocks[b]['stmts']:
                    if stt['s'] == 'assign' and stt['rv']['rv'] == 'agg' and stt['rv'].get('kind') == 'array' and stt['rv'].get('ty') == 'u32':
                        incs.append([op_const(o) for o in stt['rv']['ops']])
            if incs != [[1]]:
                return 'the key is incremented by %s instead of 1' % incs
            return True
    return 'the key side is not from_bytes_le(key) + BigUint::new([1])'


def match_checksum(st, x, y):
    """x = decrypted Checksum field ; y = hmac_md5(verify_key, SeqNum || plaintext)[0..8]"""
    if not has_call(y, 'nla::ntlm::hmac_md5'):
        return None
    h = [c for c in calls_in(y, 'nla::ntlm::hmac_md5') if c[0] == 'call'][0]
    key, data = h[3][0], h[3][1]
    if not any(n[0] == 'field' and n[2] == 'verify_key' for n in walk(key)):
        return 'the HMAC is not keyed with verify_key'
    strs = [c[2] for c in consts_in(data) if isinstance(c[2], str)]
    seq_in = any('"SeqNum"' in s_ for s_ in strs)
    dec_in = any(c[1] == 'nla::rc4::Rc4::process' for c in calls_in(data))
    if not seq_in:
        return 'the HMAC input does not contain the SeqNum field of the received signature'
    if not dec_in:
        return 'the HMAC input does not contain the decrypted payload'
    # range [0..8]
    rng = [n for n in walk(y) if n[0] == 'agg' and n[1] == 'std::ops::Range']
    if not rng or [fold(o)[1] for o in rng[0][3]] != [0, 8]:
        return 'the computed HMAC is not truncated to its first 8 bytes [0..8]'
    # x: the plaintext checksum = buffer filled by decrypt.process(checksum field)
    procs = [c for c in calls_in(x) if c[1] == 'nla::rc4::Rc4::process']
    if not procs:
        return 'the received checksum is compared without being decrypted'
    return True
