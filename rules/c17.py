"""C17 - secrets leave the client only where the chosen mode says they may (DESIGN.md 4/C17, Appendix A.7)."""
from common import *
import dsl

META = {
    'level': 'other',
    'explanation': 'Field-sensitive information-flow analysis on the MIR of the current tree. (R17.1) Every read of the secret fields '
                   '(Connector::password, Ntlm::password) in the whole program is enumerated and its forward slice must end only in '
                   'the allowed sinks: Ntlm::new -> one-way ntowfv2 (md4/hmac_md5), sec::connect -> rdp_infos password field, '
                   'get_password -> create_ts_credentials -> gss_wrapex; never a formatter, never another message builder. '
                   '(R17.2) per feasible path of Connector::connect / cssp_connect / x224::Client::connect the credential arguments '
                   'are the empty values exactly under restricted-admin and the request flag is RestrictedAdminModeRequired exactly '
                   'then; (R17.3) blank_creds reaches only the CredSSP parameter; (R17.4) the Client Info flag word is constant-folded '
                   'per path: INFO_AUTOLOGON is set exactly on the paths where auto_logon is true and depends on nothing else. '
                   'Both sinks are behind TLS by C02.',
    'assumptions': ['md4 / hmac_md5 are one-way (declassifiers)', 'gss_wrapex seals its input (C16)', 'TLS is established before both sinks (C02)'],
    'trusted_base': ['rustc nightly MIR construction', 'mirfacts exporter', 'rules/c17.py, dsl.py, sym.py, facts.py'],
}
META['explanation'] += ' (R17.6) each security-relevant Connector option is stored by its own builder method only; the requested mode is handed through write_connection_request / x224_connection_pdu unchanged (R17.2).'

CONNECT = 'core::client::Connector::connect'
CSSP = 'nla::cssp::cssp_connect'
XCONNECT = 'core::x224::Client::<S>::connect'
FMT = re.compile(r'core::fmt|std::fmt|std::io::_print|_eprint')


def field_reads(P, owner, name):
    """[(body, block, stmt)] of every statement / terminator operand reading owner.name"""
    out = []
    for b in P.bodies.values():
        for bi in range(b.n):
            bl = b.blocks[bi]
            if bl['cleanup']:
                continue
            for st in bl['stmts']:
                if st['s'] != 'assign':
                    continue
                if _mentions(st['rv'], owner, name):
                    out.append((b, bi, st))
            t = bl['term']
            if t['t'] == 'call' and any(_mentions(a, owner, name) for a in t['args']):
                out.append((b, bi, None))
    return out


def _mentions(obj, owner, name):
    if isinstance(obj, dict):
        if 'p' in obj and 'l' in obj:
            for pr in obj['p']:
                if pr.get('k') == 'field' and pr.get('name') == name and pr.get('owner') == owner:
                    return True
        return any(_mentions(v, owner, name) for v in obj.values())
    if isinstance(obj, list):
        return any(_mentions(v, owner, name) for v in obj)
    return False


def sinks_of(body, local):
    """sink descriptors of the forward slice of `local`: ('call', callee, argi) / ('ret',) / ('store', ...) / other"""
    out = []
    for s in forward_uses(body, local):
        if s['sink'] == 'call':
            out.append(('call', s['call'].callee, s['argi'], s['call']))
        elif s['sink'] == 'discr':
            continue
        else:
            out.append((s['sink'], None, None, None))
    return out


def param_flow(P, fn, param, allowed, ctx, rule, what, allow_store=False):
    """the forward slice of parameter `param` of fn ends only in calls matching `allowed` [(callee regex, argi)]"""
    body = ctx.body(fn)
    ok = True
    seen = []
    for k, callee, argi, call in sinks_of(body, param):
        if k == 'call':
            seen.append('%s#%s' % (callee.rsplit('::', 1)[-1], argi))
            if FMT.search(callee):
                ok = False
            elif not any(re.search(rx, callee) and (ai is None or ai == argi) for rx, ai in allowed):
                ok = False
        else:
            if k not in ('ret',) and not (allow_store and k == 'agg'):
                seen.append(k)
                ok = False
    ctx.check(ok and seen, rule, 'flow:%s:%d' % (fn, param), '%s: %s flows only into %s' % (fn.rsplit('::', 1)[-1], what, sorted(set(seen))),
              body.where(), '%s: %s also flows into %s (allowed: %s)' % (fn, what, sorted(set(seen)), [a[0] for a in allowed]))


def empty_string(e):
    e = unwrap_cast(e)
    cs = [c for c in consts_in(e) if isinstance(c[2], str)]
    if e[0] == 'call' and re.search(r'^std::string::String::new$|^<std::string::String as std::default::Default>::default$', e[1]):
        return True
    return e[0] == 'call' and re.search(r'to_string$|to_owned$|String as std::convert::From<&str>>::from$', e[1]) is not None \
        and any(c[2] in ('""', 'const ""') for c in cs)


def run(ctx):
    P = ctx.prog

    # ---- R17.1 census of secret field reads and their forward slices ----------------------------------------
    reads = field_reads(P, 'core::client::Connector', 'password')
    where_ = sorted(set(P.key_of(b) for b, _, _ in reads))
    ctx.check(set(where_) <= {CONNECT, 'core::client::Connector::credentials'}, 'R17.1', 'census:connector_password',
              'Connector::password is accessed only in Connector::connect (and set in credentials())', '',
              'Connector::password is accessed in %s' % where_)
    cc = ctx.body(CONNECT)
    n = 0
    for b, bi, st in reads:
        if P.key_of(b) != CONNECT or st is None:
            continue
        n += 1
        tgt = st['place']['l']
        good = True
        desc = []
        for k, callee, argi, call in sinks_of(b, tgt):
            desc.append('%s#%s' % (callee.rsplit('::', 1)[-1] if callee else k, argi))
            if k != 'call':
                good = False
            elif callee == 'nla::ntlm::Ntlm::new' and argi == 2:
                pass
            elif callee == 'core::sec::connect' and argi == 3:
                pass
            else:
                good = False
        ctx.check(good and desc, 'R17.1', 'connector_password:use:%d' % n,
                  'a read of Connector::password flows only into %s' % desc, where(b, bi),
                  'Connector::connect lets the password flow into %s (allowed: Ntlm::new#2, sec::connect#3)' % desc)
    ctx.floor('R17.1', 'reads of Connector::password in Connector::connect', n, 2)

    reads = field_reads(P, 'nla::ntlm::Ntlm', 'password')
    where_ = sorted(set(P.key_of(b) for b, _, _ in reads))
    GP = '<nla::ntlm::Ntlm as nla::sspi::AuthenticationProtocol>::get_password'
    ctx.check(set(where_) == {GP}, 'R17.1', 'census:ntlm_password',
              'Ntlm::password is read only by get_password (never by the NTLM message builders)', '',
              'Ntlm::password is read in %s: the password could appear in an NTLM token' % where_)
    # Ntlm::new: the password parameter is hashed (one-way) and stored, nothing else
    param_flow(P, 'nla::ntlm::Ntlm::new', 3, [(r'^nla::ntlm::ntowfv2$', 0), (r'^nla::ntlm::lmowfv2$', 0)], ctx, 'R17.1', 'the password parameter (hashed; the value itself only stored in the Ntlm struct)', allow_store=True)
    for fn in ('nla::ntlm::ntowfv2',):
        param_flow(P, fn, 1, [(r'^nla::ntlm::unicode$', 0)], ctx, 'R17.1', 'the password')
        b = ctx.body(fn)
        u = b.calls_to('nla::ntlm::unicode')
        chain_ok = False
        for c in u:
            if any(o.kind == 'param' and o.param == 1 for o in origins(b, c.args[0])):
                sk = sinks_of(b, c.dest['l'])
                chain_ok = all(k == 'call' and callee == 'nla::ntlm::md4' for k, callee, _, _ in sk) and sk
        ctx.check(chain_ok, 'R17.1', 'ntowfv2:oneway', 'ntowfv2: unicode(password) flows only into md4 (one-way)', b.where(),
                  'ntowfv2 uses the encoded password outside md4')
    param_flow(P, 'nla::ntlm::lmowfv2', 1, [(r'^nla::ntlm::ntowfv2$', 0)], ctx, 'R17.1', 'the password')
    # get_password result only reaches create_ts_credentials#2 (checked in cssp_connect), which only reaches gss_wrapex
    cs = ctx.body(CSSP)
    for c in cs.calls_to('nla::sspi::AuthenticationProtocol::get_password'):
        sk = sinks_of(cs, c.dest['l'])
        good = sk and all(k == 'call' and callee == 'nla::cssp::create_ts_credentials' and argi == 2 for k, callee, argi, _ in sk)
        ctx.check(good, 'R17.1', 'cssp:get_password', 'get_password()\'s result flows only into create_ts_credentials (password position)', c.where(),
                  'cssp_connect uses the password outside create_ts_credentials#2: %s' % [(callee, argi) for _, callee, argi, _ in sk])
    for c in cs.calls_to('nla::cssp::create_ts_credentials'):
        sk = sinks_of(cs, c.dest['l'])
        good = sk and all(k == 'call' and callee == 'nla::sspi::GenericSecurityService::gss_wrapex' and argi == 1 for k, callee, argi, _ in sk)
        ctx.check(good, 'R17.1', 'cssp:credentials_sealed', 'the TSCredentials blob flows only into gss_wrapex (sealed before leaving)', c.where(),
                  'cssp_connect uses the clear TSCredentials outside gss_wrapex: %s' % [(callee, argi) for _, callee, argi, _ in sk])
    # create_ts_credentials: password parameter only into the "password" octet string
    ctc = ctx.body('nla::cssp::create_ts_credentials')
    ctx.check(not any(FMT.search(c.callee) for c in ctc.calls), 'R17.1', 'create_ts_credentials:nofmt', 'create_ts_credentials formats nothing', ctc.where())
    # sec::connect / rdp_infos
    param_flow(P, 'core::sec::connect', 4, [(r'^core::sec::rdp_infos$', 3)], ctx, 'R17.1', 'the password')
    param_flow(P, 'core::sec::rdp_infos', 4, [(r'Unicode>::to_unicode$', 0)], ctx, 'R17.1', 'the password')
    for sh, fl in dsl.returned_components(P, 'core::sec::rdp_infos'):
        d = {f.key: f for f in fl}
        tainted = [f.key for f in fl if any(n == ('param', 4) for n in walk(f.expr))]
        ctx.check(sorted(tainted) == ['cbPassword', 'password'], 'R17.1', 'rdp_infos:fields',
                  'in the Client Info PDU the password parameter reaches only fields password / cbPassword', sh.body.where(),
                  'rdp_infos places password-derived data in fields %s' % tainted)
        break
    # no message builder of the NTLM layer / x224 request touches a password: covered by the census above (no other reader)

    # ---- R17.6 the mode a connection runs in is what the caller configured: each security-relevant Connector option is stored by its own builder
    # method and by no other (builder calls commute: `.blank_creds(true).set_restricted_admin_mode(false)` must leave blank_creds set) ----------
    OWNER = {'blank_creds': 'blank_creds', 'restricted_admin_mode': 'set_restricted_admin_mode', 'use_nla': 'use_nla', 'password': 'credentials',
             'domain': 'credentials', 'username': 'credentials', 'password_hash': 'set_password_hash', 'auto_logon': 'auto_logon',
             'check_certificate': 'check_certificate'}
    writers_of = {}
    for k_, b_ in P.bodies.items():
        if not k_.startswith('core::client::Connector::') or b_.kind == 'Closure':
            continue
        for bi in range(b_.n):
            if b_.blocks[bi]['cleanup']:
                continue
            for stt in b_.blocks[bi]['stmts']:
                if stt['s'] == 'assign' and stt['place']['p'] and stt['place']['p'][-1]['k'] == 'field' \
                        and (stt['place']['p'][-1].get('owner') == 'core::client::Connector' or stt['place']['l'] == 1):
                    writers_of.setdefault(stt['place']['p'][-1]['name'], set()).add(k_.rsplit('::', 1)[-1])
    for fld, own in sorted(OWNER.items()):
        ctx.check(writers_of.get(fld, set()) == {own}, 'R17.6', 'option_writer:%s' % fld, 'Connector::%s is set by %s() only' % (fld, own), '',
                  'Connector::%s is stored by %s (expected only %s()): configuring one option silently changes another, so the credentials sent no longer '
                  'depend only on the mode the caller chose' % (fld, sorted(writers_of.get(fld, set())), own))

    # ---- R17.2 restricted admin ---------------------------------------------------------------------------------------
    n_r = n_n = 0
    for path, st in feasible_paths(cc, P, limit=100000):
        sc = path_calls(st, 'core::sec::connect')
        if not sc:
            continue
        restricted = None
        for ev in path_branches(st):
            d = strip(ev[2])
            if d[0] == 'field' and d[2] == 'restricted_admin_mode':
                restricted = branch_truth(ev)
        a = [resolve(st, sc[0][2][i]) for i in (1, 2, 3)]
        if restricted:
            n_r += 1
            ctx.check(all(empty_string(x) for x in a), 'R17.2', 'connector:restricted', 'restricted admin: Client Info carries three empty strings',
                      where(cc, sc[0][1].block), 'Connector::connect sends %s in the Client Info PDU in restricted-admin mode' % [show(x)[:40] for x in a])
        else:
            n_n += 1
            names = []
            for x in a:
                f = [n for n in walk(x) if n[0] == 'field' and n[2] in ('domain', 'username', 'password')]
                names.append(f[0][2] if f else '?')
            ctx.check(names == ['domain', 'username', 'password'], 'R17.2', 'connector:normal',
                      'normal mode: Client Info carries (domain, username, password) in that order', where(cc, sc[0][1].block),
                      'Connector::connect passes %s to sec::connect' % names)
        al = origins(cc, sc[0][1].args[4])
        ctx.check(len(al) == 1 and al[0].kind == 'param' and al[0].path[-1:] == ('auto_logon',), 'R17.4', 'connector:auto_logon',
                  'sec::connect receives Connector::auto_logon unchanged', where(cc, sc[0][1].block))
    ctx.floor('R17.2', 'restricted-admin paths reaching sec::connect', n_r, 1)
    ctx.floor('R17.2', 'normal paths reaching sec::connect', n_n, 1)
    # x224 connect: flags
    xs = cc.calls_to(XCONNECT)
    for c in xs:
        o4 = origins(cc, c.args[4])
        o5 = origins(cc, c.args[5])
        ctx.check([x.path[-1:] for x in o4] == [('restricted_admin_mode',)] and [x.path[-1:] for x in o5] == [('blank_creds',)], 'R17.2', 'connector:mode_args',
                  'x224::Client::connect receives (restricted_admin_mode, blank_creds) in their positions', c.where(),
                  'Connector::connect passes %s / %s as restricted_admin_mode / blank_creds' % (o4, o5))
    xc = ctx.body(XCONNECT)
    seen = set()
    for path, st in feasible_paths(xc, P, limit=100000):
        ra = None
        bc = None
        for ev in path_branches(st):
            d = strip(ev[2])
            if d == ('param', 5):
                ra = branch_truth(ev) if ra is None else ra
            if d == ('param', 6):
                bc = branch_truth(ev)
        rq = path_calls(st, 'core::x224::Client::<S>::write_connection_request')
        if rq:
            mode = fold(unwrap_cast(resolve(st, rq[0][2][2])))
            mv = fold(mode[3][0]) if mode[0] == 'agg' and mode[2] == 'Some' else ('unknown',)
            want = 1 if ra else 0
            ctx.check(mv[0] == 'const' and mv[1] == want and ra is not None, 'R17.2', 'x224:request_flag:%s' % ra,
                      'negotiation request flag = %d when restricted_admin_mode = %s' % (want, ra), where(xc, rq[0][1].block),
                      'x224::Client::connect announces mode flag %s when restricted_admin_mode = %s (RestrictedAdminModeRequired = 1 iff restricted admin)'
                      % (show(mv), ra))
        nl = path_calls(st, 'core::tpkt::Client::<S>::start_nla')
        if nl:
            v = fold(unwrap_cast(resolve(st, nl[0][2][3])))
            if ra:
                good = v[0] == 'const' and v[1] == 1
            else:
                good = v == ('param', 6)
            seen.add(ra)
            ctx.check(good, 'R17.2', 'x224:cssp_empty:%s' % ra,
                      'CredSSP credentials are emptied iff restricted_admin_mode || blank_creds (restricted=%s -> %s)' % (ra, show(v)), where(xc, nl[0][1].block),
                      'x224::Client::connect passes %s as the "empty credentials" flag of start_nla when restricted_admin_mode = %s '
                      '(must be restricted_admin_mode || blank_creds)' % (show(v), ra))
    ctx.check(seen == {True, False}, 'R17.2', 'x224:cssp_empty:coverage', 'both restricted-admin cases reach start_nla', xc.where())
    ctx.check(P.enum_discr('core::x224::RequestMode', 'RestrictedAdminModeRequired') == 1, 'R17.2', 'mode:value', 'RESTRICTED_ADMIN_MODE_REQUIRED = 0x01', '')
    # the request builder places mode into "flag" and protocols into "result"
    for fn, key, param in (('core::x224::rdp_neg_req', 'flag', 3), ('core::x224::rdp_neg_req', 'result', 2), ('core::x224::rdp_neg_req', 'type', 1)):
        good = False
        for sh, fl in dsl.returned_components(P, fn):
            f = [x for x in fl if x.key == key]
            good = bool(f) and any(n == ('param', param) for n in walk(f[0].expr))
        ctx.check(good, 'R17.2', 'negreq:%s' % key, 'rdp_neg_req.%s comes from parameter %d' % (key, param), ctx.body(fn).where())
    cp = ctx.body('core::x224::x224_connection_pdu')
    for c in cp.calls_to('core::x224::rdp_neg_req'):
        ps = [[o.param for o in origins(cp, a) if o.kind == 'param'] for a in c.args]
        ctx.check(ps == [[1], [3], [2]], 'R17.2', 'connection_pdu:args', 'x224_connection_pdu(neg_type, mode, protocols) -> rdp_neg_req(neg_type, protocols, mode)', c.where(),
                  'x224_connection_pdu passes parameters %s to rdp_neg_req(neg_type, result, flag)' % ps)
    # the mode announced in the negotiation request is the caller's, whatever else is requested: write_connection_request and
    # x224_connection_pdu hand their mode parameter on unchanged (no filter on the offered protocols, no default)
    def pure_param(e, param):
        nodes = list(walk(e))
        if not any(n == ('param', param) for n in nodes):
            return False
        for n in nodes:
            if n[0] in ('bin', 'un', 'unknown', 'mutated', 'index', 'upd') or (n[0] == 'param' and n[1] != param) or n[0] in ('call', 'closure'):
                return False
        return True
    for fn, callee, argi, parami in (('core::x224::Client::<S>::write_connection_request', 'core::x224::x224_connection_pdu', 1, 3),
                                     ('core::x224::x224_connection_pdu', 'core::x224::rdp_neg_req', 2, 2)):
        fb = ctx.body(fn)
        n_c = 0
        for path, st in feasible_paths(fb, P, limit=20000):
            for ev in path_calls(st, [callee]):
                n_c += 1
                ctx.check(pure_param(resolve(st, ev[2][argi]), parami), 'R17.2', 'mode_passthrough:%s' % fn.rsplit('::', 1)[-1],
                          '%s hands its mode parameter to %s unchanged' % (fn.rsplit('::', 1)[-1], callee.rsplit('::', 1)[-1]), fb.where(),
                          '%s does not pass the requested mode through unchanged: the restricted-admin announcement would depend on something else than the '
                          'mode the caller chose (e.g. dropped when CredSSP is not offered) while the payloads are still emptied' % fn)
        ctx.floor('R17.2', 'calls of %s in %s' % (callee.rsplit('::', 1)[-1], fn.rsplit('::', 1)[-1]), n_c, 1)
    # cssp_connect: credentials emptied exactly under the flag, and in the right positions
    seen = set()
    for path, st in feasible_paths(cs, P, limit=200000):
        ct = path_calls(st, 'nla::cssp::create_ts_credentials')
        if not ct:
            continue
        flags = [branch_truth(ev) for ev in path_branches(st) if strip(ev[2]) == ('param', 3)]
        if not flags or len(set(flags)) != 1:
            ctx.fail('R17.2', 'cssp:flag_consistency', 'cssp_connect tests restricted_admin_mode inconsistently on one path (%s)' % flags, cs.where())
            continue
        seen.add(flags[0])
        a = [unwrap_cast(resolve(st, ct[0][2][i])) for i in (0, 1, 2)]
        if flags[0]:
            good = all(x[0] == 'call' and x[1] == 'std::vec::Vec::<T>::new' for x in a)
            ctx.check(good, 'R17.2', 'cssp:emptied', 'flag set: TSCredentials carries three empty values', where(cs, ct[0][1].block),
                      'cssp_connect builds TSCredentials from %s although the empty-credentials flag is set' % [show(x)[:40] for x in a])
        else:
            names = [x[1].rsplit('::', 1)[-1] if x[0] == 'call' else '?' for x in a]
            ctx.check(names == ['get_domain_name', 'get_user_name', 'get_password'], 'R17.2', 'cssp:filled',
                      'flag clear: TSCredentials carries (domain, user, password) from the authentication protocol, in order', where(cs, ct[0][1].block),
                      'cssp_connect builds TSCredentials from %s' % names)
    ctx.check(seen == {True, False}, 'R17.2', 'cssp:coverage', 'both flag values reach create_ts_credentials', cs.where())

    # ---- R17.3 blank_creds reaches only the CredSSP parameter ----------------------------------------------------------------
    reads = field_reads(P, 'core::client::Connector', 'blank_creds')
    wh = sorted(set(P.key_of(b) for b, _, _ in reads))
    ctx.check(set(wh) <= {CONNECT, 'core::client::Connector::blank_creds'}, 'R17.3', 'census:blank_creds', 'Connector::blank_creds is read only in connect', '',
              'blank_creds is read in %s' % wh)
    for b, bi, st in reads:
        if P.key_of(b) == CONNECT and st is not None:
            sk = sinks_of(b, st['place']['l'])
            ctx.check(sk and all(k == 'call' and callee == XCONNECT and argi == 5 for k, callee, argi, _ in sk), 'R17.3', 'blank_creds:use',
                      'blank_creds flows only into x224::Client::connect (blank_creds position)', where(b, bi),
                      'blank_creds flows into %s' % [(callee, argi) for _, callee, argi, _ in sk])
    sk = sinks_of(xc, 6)
    ctx.check(sk and all(k == 'call' and callee == 'core::tpkt::Client::<S>::start_nla' and argi == 3 for k, callee, argi, _ in sk), 'R17.3', 'x224:blank_creds',
              'inside x224::Client::connect blank_creds influences only the CredSSP empty-credentials flag', xc.where(),
              'x224::Client::connect uses blank_creds for %s' % [(callee, argi) if callee else k for k, callee, argi, _ in sk])

    # ---- R17.4 auto-logon flag ----------------------------------------------------------------------------------------------------
    AUTOLOGON = 0x8
    ri = ctx.body('core::sec::rdp_infos')
    seen = set()
    for sh, fl in dsl.returned_components(P, 'core::sec::rdp_infos'):
        st = sh.st
        al = [branch_truth(ev) for ev in path_branches(st) if strip(ev[2]) == ('param', 5)]
        others = [show(strip(ev[2]))[:50] for ev in path_branches(st)
                  if strip(ev[2])[0] not in ('const', 'discr') and strip(ev[2]) not in (('param', 5), ('param', 1))]
        f = [x for x in fl if x.key == 'flag']
        if not f or len(al) != 1:
            ctx.fail('R17.4', 'rdp_infos:shape', 'rdp_infos no longer computes the flag word under exactly one auto_logon test', ri.where())
            continue
        v = fold(f[0].expr)
        cv = [fold(c) for c in walk(v) if c[0] == 'agg' and c[1] == 'model::data::Value']
        val = fold(cv[0][3][0]) if cv else ('unknown',)
        seen.add(al[0])
        good = val[0] == 'const' and val[1] is not None and bool(val[1] & AUTOLOGON) == al[0] and not others
        ctx.check(good, 'R17.4', 'rdp_infos:autologon:%s' % al[0],
                  'auto_logon=%s -> Client Info flags = 0x%x (INFO_AUTOLOGON %s), no other condition on the path'
                  % (al[0], val[1] if val[0] == 'const' and val[1] is not None else -1, 'set' if al[0] else 'clear'), ri.where(),
                  'rdp_infos: with auto_logon=%s the flag word is %s and the path also depends on %s: INFO_AUTOLOGON must be set exactly when requested'
                  % (al[0], show(val), others))
    ctx.check(seen == {True, False}, 'R17.4', 'rdp_infos:coverage', 'both auto_logon values are encoded', ri.where())
    # the auto-logon request only *adds* INFO_AUTOLOGON: every other bit of the flag word (INFO_UNICODE, INFO_MOUSE, ...) is the same in both modes
    flag_words = {}
    for sh, fl in dsl.returned_components(P, 'core::sec::rdp_infos'):
        al = [branch_truth(ev) for ev in path_branches(sh.st) if strip(ev[2]) == ('param', 5)]
        f = [x for x in fl if x.key == 'flag']
        if f and len(al) == 1:
            cv = [fold(c) for c in walk(fold(f[0].expr)) if c[0] == 'agg' and c[1] == 'model::data::Value']
            val = fold(cv[0][3][0]) if cv else ('unknown',)
            if val[0] == 'const' and val[1] is not None:
                flag_words.setdefault(al[0], set()).add(val[1])
    INFO_UNICODE = 0x10
    ok_bits = flag_words.get(True) and flag_words.get(False) and {v & ~AUTOLOGON for v in flag_words[True]} == {v & ~AUTOLOGON for v in flag_words[False]} \
        and all(v & INFO_UNICODE for vs in flag_words.values() for v in vs)
    ctx.check(bool(ok_bits), 'R17.4', 'rdp_infos:other_bits', 'apart from INFO_AUTOLOGON the flag word is identical with and without auto-logon, and announces INFO_UNICODE',
              ri.where(), 'rdp_infos: the Client Info flag words %s differ in more than INFO_AUTOLOGON between the two modes (or lose INFO_UNICODE 0x10 although the strings '
              'are UTF-16): the packet no longer describes its own strings' % {k: sorted(hex(v) for v in vs) for k, vs in flag_words.items()})
    sc = ctx.body('core::sec::connect')
    for c in sc.calls_to('core::sec::rdp_infos'):
        o = origins(sc, c.args[4])
        ctx.check(len(o) == 1 and o[0].kind == 'param' and o[0].param == 5, 'R17.4', 'sec:auto_logon', 'sec::connect forwards auto_logon unchanged to rdp_infos', c.where())
