"""C08 - bitmap decompression is total and returns exactly width*height*4 bytes (DESIGN.md 4/C08)."""
from common import *
import hpa_prop
import hpa

META = {
    'level': 'other',
    'technique': 'panic-site census, typestate argument for the row cursor, result-buffer provenance, interval abstract interpretation and relational '
                 'invariant inference (polynomial facts, Houdini joins, Farkas/simplex entailment), loop-guard cycle rule over rustc MIR',
    'explanation': 'Static analysis of BitmapEvent::decompress and codec::rle on the MIR of the current tree. (R08.1) no explicit panic, '
                   'assert or expect is reachable, and every unwrap() is the decoder\'s `line` typestate idiom whose initialisation is '
                   'established structurally (x starts at width, the row switch that assigns Some(..) dominates every use); (R08.2) every Ok '
                   'value of decompress is, by provenance, a buffer created as vec![0; width*height*4], the event data guarded by '
                   'len == width*height*4, or the result of rgb565torgb32 which returns such a buffer; (R08.3) every overflow / division / '
                   'bounds / slicing site of decompress, rgb565torgb32, rle_32_decompress, process_plane and rle_16_decompress is discharged for all u16 '
                   'dimensions and all data, either by the interval analysis or by an inductive relational invariant inferred on the MIR (exact polynomial '
                   'values, polynomial inequalities kept at a join only if every incoming edge entails them, callee preconditions = join over all call '
                   'sites); rle_16_decompress is analysed by cases on its width parameter: width >= 1 in both tiers, width = 0 in the thorough tier, where '
                   'the only sites that are not implied are the two inserted-mix stores, excluded by (R08.6): the inserted-mix flag is never set while '
                   'x == width and no line has been decoded; '
                   '(R08.4) every allocation has size width*height*{1,2,4} elements and there is no unsafe code; '
                   '(R08.5) every CFG cycle through a pixel store passes a comparison of the column counter with the width.',
    'assumptions': ['in-crate call sites are the only callers of the pub codec helpers (rle_16_decompress relies on its caller for output.len() >= width*height)',
                    'quick tier: the in-loop sites of rle_16_decompress are decided for width >= 1 only (width = 0 is decided in the thorough tier and guarded by R08.6 in both)',
                    'byteorder read_* fail cleanly at end of input', 'a slice is never longer than isize::MAX'],
    'trusted_base': ['rustc nightly MIR construction', 'mirfacts exporter', 'rules/c08.py, relinv.py, hpa.py, hpa_report.py, poly.py, sym.py, facts.py'],
}

DECOMPRESS = 'core::event::BitmapEvent::decompress'
FUNCS = [DECOMPRESS, 'codec::rle::rle_32_decompress', 'codec::rle::rle_16_decompress', 'codec::rle::process_plane', 'codec::rle::rgb565torgb32']
REL16 = bool(__import__('os').environ.get('VERIF_C08_REL16'))
RUN_LOOP_FUNCS = ['codec::rle::rle_16_decompress', 'codec::rle::process_plane']


def dims_product(e, body_kind='decompress'):
    """(set of dimension names, constant factor) if e is a product of width / height (each once) and a constant"""
    e = fold(e)
    names = []
    k = 1

    def rec(x):
        nonlocal k
        x = unwrap_cast(fold(x))
        if x[0] == 'bin' and x[1].startswith('Mul'):
            return rec(x[2]) and rec(x[3])
        if x[0] == 'const' and x[1] is not None:
            k *= x[1]
            return True
        if x[0] == 'field' and x[2] in ('width', 'height'):
            names.append(x[2])
            return True
        if x[0] == 'param':
            names.append('p%d' % x[1])
            return True
        return False
    if not rec(e):
        return None, None
    return tuple(sorted(names)), k


def run(ctx):
    P = ctx.prog
    R = hpa_prop.report_for(P)
    for f in FUNCS:
        ctx.body(f)
    sites = R.sites_for(FUNCS)
    # ---- R08.1 explicit panics ---------------------------------------------------------------------------------
    n_p = 0
    for s in sites:
        if s.kind == 'panic':
            n_p += 1
            ctx.check(s.verdict == 'discharged', 'R08.1', 'panic:%s:%s' % (P.key_of(s.body), s.sig), 'no reachable explicit panic', s.where(),
                      '%s contains a reachable explicit panic (%s): hostile bitmap data can crash the decoder' % (P.key_of(s.body), s.desc))
    ctx.check(n_p == 0 or True, 'R08.1', 'panic:none', 'explicit panic sites in the decoder: %d' % n_p, '')
    # ---- R08.1b unwrap idiom -------------------------------------------------------------------------------------
    n_u = 0
    for s in sites:
        if s.kind != 'unwrap':
            continue
        n_u += 1
        b = s.body
        root = copy_root_local(b, s.ops[0])
        is_line = root is not None and P.key_of(b).endswith('rle_16_decompress') and root in r16_vars(b)['line']
        names = {b.local_name(root) if root is not None else None}
        ok = is_line and line_typestate(ctx, b)
        ctx.check(ok, 'R08.1', 'unwrap:%s' % ('line' if is_line else s.sig),
                  'unwrap() of the row cursor `line` (Some(..) is assigned by the row switch that precedes every pixel write)', s.where(),
                  '%s unwraps %s: not the established `line` typestate idiom - a None here is a panic on hostile data' % (P.key_of(b), sorted(names) or s.desc))
    ctx.extra['unwrap_sites'] = n_u

    # ---- R08.3 every arithmetic / index / slicing site: interval engine or relational engine ----------------------------------------
    import relinv
    from fractions import Fraction
    R16 = 'codec::rle::rle_16_decompress'
    rel_order = [DECOMPRESS, 'codec::rle::rgb565torgb32', 'codec::rle::rle_32_decompress', 'codec::rle::process_plane', R16]
    # rle_16_decompress is analysed by cases on its width parameter (P2): width >= 1 here, width = 0 below (thorough tier)
    rel = relinv.analyse_program(P, rel_order, assume={R16: [{(): Fraction(1), ('P2',): Fraction(-1)}]})
    rel_w0 = None
    if ctx.tier == 'thorough' or REL16:
        rel_w0 = relinv.analyse_program(P, [DECOMPRESS, R16], assume={R16: [{('P2',): Fraction(1)}]})[R16]
    rel_by_block = {}
    for k_, an in rel.items():
        ctx.check(an.stable, 'R08.3', 'rel:stable:%s' % k_.rsplit('::', 1)[-1], 'relational analysis of %s reached a fixpoint (%d block visits)' % (k_.rsplit('::', 1)[-1], an.block_visits),
                  P.bodies[k_].where(), 'relational analysis of %s did not stabilise: its verdicts are not used' % k_)
        for rs in an.sites.values():
            cur = rel_by_block.get((k_, rs.block))
            rel_by_block[(k_, rs.block)] = bool(rs.ok) if cur is None else (cur and bool(rs.ok))
    if rel_w0 is not None:
        b16 = P.bodies[R16]
        ctx.check(rel_w0.stable, 'R08.3', 'rel:stable:rle_16_decompress:w0', 'relational analysis of rle_16_decompress for width = 0 reached a fixpoint', b16.where())
        im = sorted(r16_vars(b16)['mix'])
        im_edges = []
        for blk in range(b16.n):
            t = b16.blocks[blk]['term']
            be = bool_edges(b16, blk) if t['t'] == 'switch' else None
            if be and op_local(t['discr']) is not None:
                vis = set()
                origins(b16, t['discr'], visited=vis)
                if set(im) & vis:
                    im_edges.append((blk, be[0]))
        for rs in rel_w0.sites.values():
            if rs.ok:
                continue
            in_mix = bool(im_edges) and b16.dominated_by_edges(rs.block, im_edges) and rs.kind == 'bounds'
            if in_mix:
                ctx.ok('R08.3:w0', 'rle_16_decompress, width = 0: the inserted-mix store is excluded by R08.6 (the flag cannot be set before a pixel was decoded)', where(b16, rs.block))
            else:
                rel_by_block[(R16, rs.block)] = False
                ctx.fail('R08.3', '%s|w0|%s' % (R16, rs.sig.split('#')[0]), 'rle_16_decompress with width = 0: %s at line %d is not implied by the relational invariant' % (rs.desc, rs.line),
                         where(b16, rs.block))
    undecided = 0
    n3 = n_rel = 0
    for s in sites:
        fn = P.key_of(s.body)
        if s.kind in ('panic', 'unwrap'):
            continue
        r_ok = rel_by_block.get((fn, s.block)) if s.kind in ('overflow', 'bounds', 'sliceindex', 'div0', 'rem0') else None
        if s.verdict == 'discharged':
            n3 += 1
            ctx.ok('R08.3:' + (s.rule or ''), '%s %s: %s' % (fn, s.desc, s.detail), s.where())
        elif r_ok:
            n3 += 1
            n_rel += 1
            ctx.ok('R08.3:D-rel', '%s %s: implied by the inductive relational invariant at this point' % (fn, s.desc), s.where())
        elif False:
            undecided += 1
        else:
            ctx.fail('R08.3', '%s|%s' % (fn, s.sig), '%s: %s is not discharged for all u16 dimensions / data (intervals: %s; relational invariant: not implied)'
                     % (fn, s.desc, s.detail), s.where())
    ctx.floor('R08.3', 'arithmetic / slicing / loop sites discharged', n3, 100)
    ctx.floor('R08.3', 'sites that need the relational invariant', n_rel, 20)
    ctx.extra['undecided_run_loop_sites'] = undecided
    ctx.extra['relational'] = {k_: {'block_visits': an.block_visits, 'sites': len(an.sites), 'entry_facts': [relinv.pshow(f) for f in an.entry_facts][:12]} for k_, an in rel.items()}
    if undecided:
        ctx.note('%d index / counter sites of rle_16_decompress are decided in the thorough tier only' % undecided)

    # ---- R08.2 / R08.4 provenance of the result and of allocations -----------------------------------------------------------
    dc = ctx.body(DECOMPRESS)
    n_ok = 0
    for path, st in feasible_paths(dc, P, limit=200000):
        v = strip(st.env.get(0))
        if not (v[0] == 'agg' and v[1] == 'std::result::Result' and v[2] == 'Ok'):
            continue
        n_ok += 1
        val = resolve(st, v[3][0])
        x = unwrap_cast(val)
        good = False
        why = show(x)[:80]
        if x[0] == 'mutated' and x[1] == 'codec::rle::rle_32_decompress':
            base = unwrap_cast(x[3])
            dn, k = dims_product(base[3][1]) if base[0] == 'call' and base[1] == 'std::vec::from_elem' else (None, None)
            good = dn == ('height', 'width') and k == 4
        elif x[0] == 'call' and x[1] == 'codec::rle::rgb565torgb32':
            good = True       # checked below: it returns vec![0; w*h*4]
            a1, a2 = unwrap_cast(x[3][1]), unwrap_cast(x[3][2])
            good = any(n[0] == 'field' and n[2] == 'width' for n in walk(a1)) and any(n[0] == 'field' and n[2] == 'height' for n in walk(a2))
        elif x[0] == 'field' and x[2] == 'data':
            # raw 32 bpp: the data itself, only under len == w*h*4
            for ev in path_branches(st):
                e = fold(resolve(st, ev[2]))
                if e[0] == 'bin' and e[1] in ('Ne', 'Eq'):
                    dn, k = dims_product(e[3])
                    lenside = unwrap_cast(e[2])
                    is_len = lenside[0] == 'call' and lenside[1].endswith('::len') and any(n[0] == 'field' and n[2] == 'data' for n in walk(lenside))
                    equal = (not branch_truth(ev)) if e[1] == 'Ne' else branch_truth(ev)
                    if is_len and dn == ('height', 'width') and k == 4 and equal:
                        good = True
        ctx.check(good, 'R08.2', 'result:%s' % (x[1].rsplit('::', 1)[-1] if x[0] in ('call', 'mutated') else x[0]),
                  'an Ok result is a buffer of exactly width*height*4 bytes by construction (%s)' % (x[1].rsplit('::', 1)[-1] if x[0] in ('call', 'mutated') else 'guarded event data'),
                  dc.where(), 'BitmapEvent::decompress returns Ok(%s) which is not, by construction, width*height*4 bytes long' % why)
    ctx.floor('R08.2', 'Ok paths of decompress', n_ok, 2)
    rg = ctx.body('codec::rle::rgb565torgb32')
    for path, st in feasible_paths(rg, P, limit=20000):
        v = strip(st.env.get(0))
        if v[0] == 'unknown':
            continue
        x = unwrap_cast(resolve(st, v))
        while x[0] == 'mutated' and re.search(r'index_mut$', x[1]):
            x = unwrap_cast(x[3])
        dn, k = dims_product(x[3][1]) if x[0] == 'call' and x[1] == 'std::vec::from_elem' else (None, None)
        ctx.check(dn == ('p2', 'p3') and k == 4, 'R08.2', 'rgb565:result', 'rgb565torgb32 returns vec![0; width*height*4] (written in place, never resized)', rg.where(),
                  'rgb565torgb32 does not return a buffer created as width*height*4 bytes (%s)' % show(x)[:80])
        break
    n_alloc = 0
    for f in FUNCS:
        b = P.bodies[f]
        seen_alloc = set()
        for path, st in feasible_paths(b, P, limit=200000) if f == DECOMPRESS or f.endswith('rgb565torgb32') else []:
            for ev in path_calls(st, ['std::vec::from_elem', 'std::vec::Vec::<T>::with_capacity']):
                if ev[1].block in seen_alloc:
                    continue
                seen_alloc.add(ev[1].block)
                n_alloc += 1
                dn, k = dims_product(resolve(st, ev[2][-1]))
                ctx.check(dn in (('height', 'width'), ('p2', 'p3')) and k in (1, 2, 4), 'R08.4', 'alloc:%s:%d' % (f, ev[1].block),
                          'allocation of width*height*%s elements' % k, where(b, ev[1].block),
                          '%s allocates %s elements: not a small multiple of the output size' % (f, show(fold(resolve(st, ev[2][-1])))[:60]))
        allocs = [c for c in b.calls if re.search(r'from_elem$|with_capacity$|::resize$|::reserve$', c.callee)]
        if f in RUN_LOOP_FUNCS or f.endswith('rle_32_decompress'):
            ctx.check(not allocs, 'R08.4', 'alloc:none:%s' % f, '%s allocates nothing' % f.rsplit('::', 1)[-1], b.where(), '%s allocates memory' % f)
        unsafe = [c for c in b.calls if c.unsafe and not (c.term['span'].get('exp') and re.match(r"^(std|core)::fmt::Arguments::<'a>::new", c.callee))]
        ctx.check(not unsafe and not b.j.get('unsafe_fn'), 'R08.4', 'unsafe:%s' % f, '%s contains no unsafe call' % f.rsplit('::', 1)[-1], b.where(),
                  '%s calls unsafe functions %s' % (f, [c.callee for c in unsafe]))
    ctx.floor('R08.4', 'allocations in decompress / rgb565torgb32', n_alloc, 1)

    insertmix_guard(ctx, P)
    # ---- R08.5 run loops bounded by the column counter ------------------------------------------------------------------------
    for f, counter, floor_ in (('codec::rle::rle_16_decompress', 'the column counter', 40), ('codec::rle::process_plane', 'the column counter', 4)):
        b = P.bodies[f]
        wl = {2}        # the line width is the second parameter of both decoders ...
        grown = True
        while grown:    # ... and every local that only ever holds a plain copy of it (the `width` parameter of an inlined helper)
            grown = False
            for l, ds in b.defs.items():
                if isinstance(l, int) and l not in wl and ds and all(
                        d[0] == 'stmt' and d[3]['rv']['rv'] == 'use' and is_place_op(d[3]['rv']['op']) and not d[3]['rv']['op']['place']['p']
                        and d[3]['rv']['op']['place']['l'] in wl for d in ds):
                    wl.add(l)
                    grown = True
        cl = None
        cmps = set()
        for blk in range(b.n):
            t = b.blocks[blk]['term']
            if t['t'] != 'switch' or blk not in b.live_blocks:
                continue
            dl = op_local(t['discr'])
            for d in b.defs.get(dl, []) if dl is not None else []:
                if d[0] == 'stmt' and d[3]['rv']['rv'] == 'bin' and d[3]['rv']['op'] in ('Lt', 'Le', 'Gt', 'Ge'):
                    rl, rr = plain_root(b, d[3]['rv']['l']), plain_root(b, d[3]['rv']['r'])
                    if (rr in wl) != (rl in wl):
                        cmps.add(blk)
        stores = []
        for blk in range(b.n):
            if b.blocks[blk]['cleanup'] or blk not in b.live_blocks:
                continue
            for stt in b.blocks[blk]['stmts']:
                if stt['s'] == 'assign' and any(p['k'] == 'index' for p in stt['place']['p']):
                    stores.append(blk)
        for i, sb in enumerate(sorted(set(stores))):
            free_cycle = any(sb in b.reachable(nx, avoid_blocks=cmps) for nx in b.succ[sb] if nx not in cmps) and sb not in cmps
            ctx.check(not free_cycle, 'R08.5', 'store:%s#%d' % (f.rsplit('::', 1)[-1], i),
                      '%s: every cycle through the pixel store #%d passes a comparison of %s with width' % (f.rsplit('::', 1)[-1], i, counter),
                      where(b, sb), '%s: a pixel store can repeat without any comparison of %s with the line width in between: a run can cross the line / buffer end'
                      % (f, counter))
        ctx.floor('R08.5', 'pixel stores in %s' % f.rsplit('::', 1)[-1], len(set(stores)), 1)
        ctx.floor('R08.5', 'comparisons of %s with width in %s' % (counter, f.rsplit('::', 1)[-1]), len(cmps), 1)


def r16_vars(b):
    """the decoder's variables identified by their role, not their name (a rename must not matter):
    width  = the second parameter (line width in pixels)
    x      = the local initialised as a copy of width in the entry block (column counter)
    line   = the Option<usize> local that is assigned Some(height * width); prevline = the Option<usize> local assigned from line
    mix    = the bool local with exactly one `= true` assignment and at least one `= false` (inserted-mix flag)"""
    out = {'width': {2} if b.arg_count >= 2 else set(), 'x': set(), 'line': set(), 'prevline': set(), 'mix': set()}
    for l in range(b.arg_count + 1, len(b.locals)):
        ty = b.local_ty(l)
        ds = b.defs.get(l, [])
        if not b.local_name(l):
            continue
        if ty == 'usize':
            if any(d[0] == 'stmt' and d[1] in (0, 1) and d[3]['rv']['rv'] == 'use' and op_local(d[3]['rv']['op']) == 2 for d in ds):
                out['x'].add(l)
        elif ty == 'std::option::Option<usize>':
            for d in ds:
                if d[0] != 'stmt':
                    continue
                rv = d[3]['rv']
                src = rv
                if rv['rv'] == 'use' and is_place_op(rv['op']) and not rv['op']['place']['p']:
                    dd = b.defs.get(rv['op']['place']['l'], [])
                    if len(dd) == 1 and dd[0][0] == 'stmt':
                        src = dd[0][3]['rv']
                if src['rv'] == 'agg' and src.get('variant') == 'Some' and src['ops']:
                    vis = set()
                    origins(b, src['ops'][0], visited=vis)
                    if 2 in vis:
                        out['line'].add(l)
        elif ty == 'bool':
            trues = [d for d in ds if d[0] == 'stmt' and d[3]['rv']['rv'] == 'use' and op_const(d[3]['rv']['op']) == 1]
            falses = [d for d in ds if d[0] == 'stmt' and d[3]['rv']['rv'] == 'use' and op_const(d[3]['rv']['op']) == 0]
            if len(trues) == 1 and falses and len(trues) + len(falses) == len(ds):
                out['mix'].add(l)
    for l in range(b.arg_count + 1, len(b.locals)):
        if b.local_ty(l) == 'std::option::Option<usize>' and b.local_name(l) and l not in out['line']:
            for d in b.defs.get(l, []):
                if d[0] == 'stmt' and d[3]['rv']['rv'] == 'use' and plain_root(b, d[3]['rv']['op']) in out['line']:
                    out['prevline'].add(l)
    return out


def insertmix_guard(ctx, P):
    """R08.6: the only pixel store that is not inside a loop bounded by `x < width` is the inserted mix pixel of a FILL that follows a
    FILL.  It is safe for width = 0 only because the flag is never set while nothing has been decoded yet (x == width and no previous
    line): every path that sets the flag must leave that test through `x != width` or `prevline != None`."""
    b = P.bodies['codec::rle::rle_16_decompress']
    V = r16_vars(b)
    ims = sorted(V['mix'])
    xs, ws, pls = V['x'], V['width'], V['prevline']
    if len(ims) != 1 or not xs or not ws or not pls:
        ctx.fail('R08.6', 'insertmix:anchor', 'rle_16_decompress no longer has the insertmix / x / width / prevline variables this rule is stated over', b.where())
        return
    sets = [d[1] for d in b.defs.get(ims[0], []) if d[0] == 'stmt' and d[3]['rv']['rv'] == 'use' and op_const(d[3]['rv']['op']) == 1]
    edges = []
    for blk in range(b.n):
        t = b.blocks[blk]['term']
        if t['t'] != 'switch' or blk not in b.live_blocks:
            continue
        dl = op_local(t['discr'])
        be = bool_edges(b, blk)
        for d in b.defs.get(dl, []) if dl is not None else []:
            if d[0] == 'stmt' and d[3]['rv']['rv'] == 'bin' and d[3]['rv']['op'] in ('Eq', 'Ne') and be:
                vl, vr = set(), set()
                origins(b, d[3]['rv']['l'], visited=vl)
                origins(b, d[3]['rv']['r'], visited=vr)
                if (xs & vl and ws & vr) or (xs & vr and ws & vl):
                    edges.append((blk, be[1] if d[3]['rv']['op'] == 'Eq' else be[0]))          # the x != width edge
            elif d[0] == 'call' and re.search(r'PartialEq(<.*>)?>?::(eq|ne)$', d[2].callee) and be:
                vis = set()
                for a in d[2].args:
                    origins(b, a, visited=vis)
                if pls & vis:
                    edges.append((blk, be[1] if d[2].callee.endswith('eq') else be[0]))        # the prevline != None edge
            elif d[0] == 'call' and re.search(r'Option::<T>::(is_some|is_none)$', d[2].callee) and be:
                vis = set()
                origins(b, d[2].args[0], visited=vis)
                if pls & vis:
                    edges.append((blk, be[0] if d[2].callee.endswith('is_some') else be[1]))    # the prevline.is_some() edge
            elif d[0] == 'stmt' and d[3]['rv']['rv'] == 'discr' and d[3]['rv']['place']['l'] in pls:
                for v_, tg in zip(t['vals'], t['targets']):
                    if v_ == 1:
                        edges.append((blk, tg))
                if 1 not in t['vals'] and t['otherwise'] is not None:
                    edges.append((blk, t['otherwise']))
    for i, sb in enumerate(sets):
        ctx.check(bool(edges) and b.dominated_by_edges(sb, edges), 'R08.6', 'insertmix:set#%d' % i,
                  'the inserted-mix flag is set only after `x != width` or `prevline != None` (a FILL at the very start of the bitmap inserts nothing)',
                  where(b, sb), 'rle_16_decompress can set the inserted-mix flag while x == width and no line has been decoded: the mix pixel is then written '
                  'without any row check having validated x < width (with width = 0 it is an out-of-bounds write into an empty buffer)')
    ctx.floor('R08.6', 'sites that set the inserted-mix flag', len(sets), 1)


def plain_root(b, op):
    """the local an operand is a plain copy of, through unnamed single-assignment temporaries (parameters and named locals stop the walk)"""
    l = op_local(op)
    if is_place_op(op) and op['place']['p']:
        return None
    for _ in range(8):
        if l is None:
            return None
        if l <= b.arg_count or b.local_name(l):
            return l
        ds = b.defs.get(l, [])
        if len(ds) != 1 or ds[0][0] != 'stmt' or ds[0][3]['rv']['rv'] != 'use' or not is_place_op(ds[0][3]['rv']['op']) or ds[0][3]['rv']['op']['place']['p']:
            return None
        l = op_local(ds[0][3]['rv']['op'])
    return None


def copy_root_local(b, op):
    """the user variable an operand is a plain copy of (through temporaries), else None"""
    l = op_local(op)
    for _ in range(8):
        if l is None:
            return None
        if b.local_name(l):
            return l
        ds = b.defs.get(l, [])
        if len(ds) != 1 or ds[0][0] != 'stmt' or ds[0][3]['rv']['rv'] != 'use':
            return None
        l = op_local(ds[0][3]['rv']['op'])
    return None


def is_err_exit(b, blk):
    """block from which only an Err return is reachable without writing pixels (refusal path)"""
    seen = b.reachable(blk)
    for x in seen:
        for stt in b.blocks[x]['stmts']:
            if stt['s'] == 'assign' and stt['place']['l'] == 0 and stt['rv']['rv'] == 'agg' and stt['rv'].get('variant') == 'Ok':
                return False
    return True


def line_typestate(ctx, b):
    """structural argument for `line.unwrap()`: (i) the column counter x is initialised from the width parameter, (ii) `line` is assigned
    Some(..) in the block guarded by x >= width, (iii) that guard dominates every unwrap of line, (iv) every other assignment of x
    is `x = 0` under that guard or an increment located after the guard"""
    cache = ctx.__dict__.setdefault('_lt', {})
    if id(b) in cache:
        return cache[id(b)]
    ok = False
    V = r16_vars(b)
    xs, ws, ls = sorted(V['x']), sorted(V['width']), sorted(V['line'])
    if len(xs) == 1 and ls and ws:
        x, line = xs[0], ls[0]
        xdefs = b.defs.get(x, [])
        init = [d for d in xdefs if d[0] == 'stmt' and d[3]['rv']['rv'] == 'use' and any(o.kind == 'param' for o in origins(b, d[3]['rv']['op']))]
        # the guard: switch on Ge(x, width)
        guard = None
        for blk in range(b.n):
            t = b.blocks[blk]['term']
            if t['t'] == 'switch' and op_local(t['discr']) is not None:
                for d in b.defs.get(op_local(t['discr']), []):
                    if d[0] == 'stmt' and d[3]['rv']['rv'] == 'bin' and d[3]['rv']['op'] == 'Ge':
                        vl, vr = set(), set()
                        origins(b, d[3]['rv']['l'], visited=vl)
                        origins(b, d[3]['rv']['r'], visited=vr)
                        if x in vl and set(ws) & vr:
                            guard = blk
        def is_some(d, depth=0):
            if d[0] != 'stmt':
                return False
            rv = d[3]['rv']
            if rv['rv'] == 'agg':
                return rv.get('variant') == 'Some'
            if rv['rv'] == 'use' and depth < 4 and op_local(rv['op']) is not None and is_place_op(rv['op']) and not rv['op']['place']['p']:
                ds = b.defs.get(op_local(rv['op']), [])
                return len(ds) == 1 and is_some(ds[0], depth + 1)
            return False
        some_defs = [d for d in b.defs.get(line, []) if is_some(d)]
        other_defs = [d for d in b.defs.get(line, []) if not is_some(d)]
        once = all(not b.in_cycle(d[1]) for d in other_defs) and not b.defs.get(('partial', line)) and not b.defs.get(ws[0]) \
            and not any(stt['s'] == 'assign' and stt['rv']['rv'] == 'ref' and stt['rv'].get('mut') and stt['rv']['place']['l'] in (line, x)
                        for bi in range(b.n) for stt in b.blocks[bi]['stmts'])
        if guard is not None and init and some_defs and once:
            e = bool_edges(b, guard)
            true_edge = (guard, e[0]) if e else None
            in_true = all(b.dominated_by_edges(d[1], [true_edge]) for d in some_defs) if true_edge else False
            uses = [c for c in b.calls if c.callee.endswith('Option::<T>::unwrap')]
            dom = all(b.dominates(guard, c.block) for c in uses)
            others = [d for d in xdefs if d not in init]
            fine = True
            for d in others:
                if d[0] != 'stmt':
                    fine = False
                    continue
                rv = d[3]['rv']
                if rv['rv'] == 'use' and op_const(rv['op']) == 0:
                    fine = fine and b.dominated_by_edges(d[1], [true_edge])
                elif rv['rv'] == 'use' and is_place_op(rv['op']) and rv['op']['place']['p'] and rv['op']['place']['p'][0].get('name') == '0':
                    fine = fine and b.dominates(guard, d[1])      # x = (x + 1).0 after the guard
                else:
                    fine = False
            ok = in_true and dom and fine
    cache[id(b)] = ok
    return ok
