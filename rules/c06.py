"""C06 - hostile server bytes during an active session never crash the client (DESIGN.md 3, 4/C06)."""
from hpa_prop import run_hpa
import c05

META = dict(c05.META)
META['explanation'] = c05.META['explanation'].replace('connection-setup', 'active-session (global channel, slow path and fast path)')
META['explanation'] += ' (R06.2) every array field of a message constructor defaults to a readable Array::new(factory); allocations are bounded in bytes (element size x count).'

ENTRIES = ['core::client::RdpClient::<S>::read', 'core::global::Client::read', 'core::mcs::Client::<S>::read', 'core::x224::Client::<S>::read',
           'core::tpkt::Client::<S>::read', 'core::client::RdpClient::<S>::write', 'core::client::RdpClient::<S>::try_write']
STOP = ['nla::cssp', 'nla::ntlm', 'nla::rc4', 'codec::', 'core::event::BitmapEvent::decompress']


def run(ctx):
    run_hpa(ctx, ENTRIES, STOP, {'functions': 150, 'sites': 85}, 'active-session')
    # ---- R06.2 every array field of a message constructor is readable: the PDU parsers (PDU::from_control, DataPDU::from_pdu, ..) read into the
    # constructor called with default arguments, and Array::read asks the array's element factory for a fresh element before it looks at the
    # stream; an array built with Array::from_trame has the factory `panic!("Try reading a non empty array")`.  Such an array may be *passed in*
    # by a writer, it must not be the constructor's own default.
    import dsl
    from common import calls_in
    n_arr = 0
    for fn in dsl.constructors(ctx.prog):
        for sh, fl in dsl.returned_components(ctx.prog, fn):
            for f in fl:
                if f.kind == 'Array':
                    n_arr += 1
                    bad = [c[1] for c in calls_in(f.expr) if c[0] in ('call', 'via') and c[1].endswith('Array::<T>::from_trame')]
                    ctx.check(not bad, 'R06.2', 'array_default:%s:%s' % (fn, f.key),
                              '%s.%s defaults to Array::new(factory): the template the parsers read into can produce elements' % (fn.rsplit('::', 1)[-1], f.key),
                              sh.body.where(), '%s builds the default of array field %s with Array::from_trame: reading that PDU kind from the server calls the '
                              'panicking element factory (a server-triggered panic, whatever the element count)' % (fn, f.key))
    ctx.floor('R06.2', 'array fields of message constructors', n_arr, 4)
