"""C06 - hostile server bytes during an active session never crash the client (DESIGN.md 3, 4/C06)."""
from hpa_prop import run_hpa
import c05

META = dict(c05.META)
META['explanation'] = c05.META['explanation'].replace('connection-setup', 'active-session (global channel, slow path and fast path)')

ENTRIES = ['core::client::RdpClient::<S>::read', 'core::global::Client::read', 'core::mcs::Client::<S>::read', 'core::x224::Client::<S>::read',
           'core::tpkt::Client::<S>::read', 'core::client::RdpClient::<S>::write', 'core::client::RdpClient::<S>::try_write']
STOP = ['nla::cssp', 'nla::ntlm', 'nla::rc4', 'codec::', 'core::event::BitmapEvent::decompress']


def run(ctx):
    run_hpa(ctx, ENTRIES, STOP, {'functions': 150, 'sites': 85}, 'active-session')
