"""C15 - NTLMv2 AUTHENTICATE tokens are accepted by an independent MS-NLMP server (DESIGN.md 4/C15)."""
from common import *
import dsl

META = {
    'level': 'other',
    'explanation': 'Structural agreement rules on the MIR of the current tree, for the clauses of C15 whose truth is a shape of the code: '
                   '(R15.1) in authenticate_message every Len/MaxLen field is the length of its own buffer, every BufferOffset is base + the '
                   'lengths of exactly the buffers that precede it in the concatenated payload, the base (80/88) equals the encoded size of '
                   'the fixed part computed from the shape model (+16 MIC, +8 Version) and is selected by the same NEGOTIATE_VERSION test that '
                   'decides whether the Version field is written; (R15.2) ntowfv2 and ntowfv2_hash are the same expression up to the '
                   'substitution md4(unicode(password)) <-> hash, and Ntlm::new / Ntlm::from_hash wire them to the same fields; (R15.3) the '
                   'temporary message used for the MIC and the final message are the same three parts with the MIC slot zeroed (16 bytes), '
                   'and mic() receives (exported session key, negotiate, challenge, authenticate) in that order; (R15.4) wiring of '
                   'compute_response_v2 / key exchange arguments. (R15.5) names and password are encoded with str::encode_utf16 (rule R04.6); (R15.6) the RC4 used for the key exchange performs the output step in RC4 order (rule R16.6). HMAC-MD5/MD4 values (acceptance by a real server) are not decided.',
    'assumptions': ['the cryptographic primitives of the md4/md-5/hmac crates are correct', 'value-level acceptance by an MS-NLMP server is not decided'],
    'trusted_base': ['rustc nightly MIR construction', 'mirfacts exporter', 'rules/c15.py, dsl.py, sym.py, facts.py'],
}
META['explanation'] += " The timestamp handed to compute_response_v2 is the server's MsvAvTimestamp itself (no default for a missing one)."

AUTH = 'nla::ntlm::authenticate_message'
PARTS = [('LmChallengeResponse', 1), ('NtChallengeResponse', 2), ('DomainName', 3), ('UserName', 4), ('Workstation', 5), ('EncryptedRandomSession', 6)]
VERSION_FLAG = 0x02000000


def len_params(e):
    """parameters whose len() occurs in e, in order"""
    out = []
    for n in walk(e):
        if n[0] == 'call' and n[1].endswith('::len') and n[3]:
            x = unwrap_cast(n[3][0])
            if x[0] == 'param':
                out.append(x[1])
    return out


def norm(e):
    """expression with call-site block numbers erased (structural comparison of two functions)"""
    if not isinstance(e, tuple):
        return e
    if e[0] in ('call',):
        return ('call', e[1], tuple(norm(a) for a in e[3]))
    if e[0] == 'via':
        return norm(e[2])
    if e[0] == 'mutated':
        return ('mutated', e[1], norm(e[3]) if len(e) > 3 and e[3] is not None else None, tuple(norm(a) for a in (e[4] if len(e) > 4 else ())))
    if e[0] in ('ref', 'refm', 'deref'):
        return norm(e[1])
    if e[0] == 'cast':
        return norm(e[1])
    return tuple(norm(x) if isinstance(x, tuple) and x and isinstance(x[0], str) else (tuple(norm(y) for y in x) if isinstance(x, tuple) else x) for x in e)


def subst(e, a, b):
    if e == a:
        return b
    if not isinstance(e, tuple):
        return e
    return tuple(subst(x, a, b) if isinstance(x, tuple) else x for x in e)


def run(ctx):
    P = ctx.prog
    # ---- R15.1 ---------------------------------------------------------------------------------------------
    rcs = dsl.returned_components(P, AUTH)
    seen_base = {}
    for sh, fl in rcs:
        st = sh.st
        d = {f.key: f for f in fl}
        # which way did the NEGOTIATE_VERSION test go on this path
        vt = None
        for ev in path_branches(st):
            e = fold(resolve(st, ev[2]))
            if e[0] == 'bin' and e[1] in ('Eq', 'Ne') and fold(e[3])[1] == 0:
                x = unwrap_cast(e[2])
                if x[0] == 'bin' and x[1] == 'BitAnd' and unwrap_cast(x[2]) == ('param', 7):
                    mask = fold(x[3])[1]
                    iszero = branch_truth(ev) if e[1] == 'Eq' else (not branch_truth(ev))
                    vt = (mask, iszero)
        ctx.check(vt is not None and vt[0] == VERSION_FLAG, 'R15.1', 'base:test',
                  'the payload base offset is selected by testing NTLMSSP_NEGOTIATE_VERSION (0x02000000) of the flags parameter', sh.body.where(),
                  'authenticate_message selects the payload base offset with flag mask %s; the Version field is present iff NTLMSSP_NEGOTIATE_VERSION (0x02000000)' % (hex(vt[0]) if vt and vt[0] is not None else vt))
        if vt is None:
            continue
        with_version = not vt[1]
        # fixed size from the shape: all fixed-size fields (+8 for Version when present) + 16 for the MIC that follows
        fixed = 0
        for f in fl:
            if f.key == 'Version':
                continue
            sz = dsl.fixed_size(f.ty)
            if sz is None and f.key == 'Signature':
                sz = 8
            fixed += sz or 0
        vsz = sum(dsl.fixed_size(f.ty) or (3 if f.key == 'Reserved' else 0) for _, vfl in dsl.returned_components(P, 'nla::ntlm::version')[:1] for f in vfl)
        base_want = fixed + 16 + (vsz if with_version else 0)
        base = fold(d['LmChallengeResponseBufferOffset'].expr)
        bc = [fold(c) for c in walk(base) if c[0] == 'agg' and c[1] == 'model::data::Value']
        bval = fold(bc[0][3][0])[1] if bc else None
        seen_base[with_version] = bval
        ctx.check(bval == base_want, 'R15.1', 'base:value:%s' % with_version,
                  'Version %s: payload starts at %d = %d fixed bytes%s + 16 (MIC)' % ('present' if with_version else 'absent', base_want, fixed, ' + %d (Version)' % vsz if with_version else ''),
                  sh.body.where(), 'authenticate_message uses base offset %s when Version is %s; the fixed part is %d bytes (+16 MIC%s) = %d'
                  % (bval, 'present' if with_version else 'absent', fixed, ', +%d Version' % vsz if with_version else '', base_want))
        # the closure deciding whether Version is written tests the same flag
        nf = d.get('NegotiateFlags')
        cl_ok = nf is not None and nf.option is not None
        if cl_ok:
            for o in nf.option:
                masks = []
                for e, truth in o['conds']:
                    e = fold(e)
                    if e[0] == 'bin' and e[1] in ('Eq', 'Ne'):
                        x = unwrap_cast(e[2])
                        if x[0] == 'bin' and x[1] == 'BitAnd':
                            masks.append(fold(x[3])[1])
                if masks != [VERSION_FLAG]:
                    cl_ok = False
        ctx.check(cl_ok, 'R15.1', 'base:closure', 'the Version field is skipped under the same NEGOTIATE_VERSION test', sh.body.where(),
                  'authenticate_message: the closure that skips the Version field does not test NTLMSSP_NEGOTIATE_VERSION')
        # ... applied to the same value: the NegotiateFlags field carries the flags parameter itself (the base offset is selected from it)
        nodes = list(walk(nf.expr)) if nf is not None else []
        same = any(n == ('param', 7) for n in nodes) and not any(n[0] in ('bin', 'un') for n in nodes) \
            and not any(n[0] == 'param' and n[1] != 7 for n in nodes)
        ctx.check(same, 'R15.1', 'base:flags_field', 'the NegotiateFlags field is the flags parameter unchanged (the value that selects the base offset also decides '
                  'whether Version is written)', sh.body.where(),
                  'authenticate_message writes a NegotiateFlags value (%s) that differs from the flags it selects the payload base offset with: the Version field '
                  'and the six BufferOffset fields can disagree by 8 bytes' % (show(strip(nf.expr))[:80] if nf is not None else None))
        prefix = []
        for name, prm in PARTS:
            for suffix in ('Len', 'MaxLen'):
                f = d.get(name + suffix)
                lp = len_params(f.expr) if f else None
                ctx.check(lp == [prm], 'R15.1', 'len:%s%s' % (name, suffix), '%s%s = len(parameter %d)' % (name, suffix, prm), sh.body.where(),
                          'authenticate_message: %s%s is computed from the length of parameter(s) %s, its buffer is parameter %d' % (name, suffix, lp, prm))
            f = d.get(name + 'BufferOffset')
            lp = len_params(f.expr) if f else None
            e = fold(f.expr) if f else ('unknown',)
            consts = [c[1] for c in consts_in(e) if c[1] is not None and c[1] >= 64]
            ctx.check(lp == prefix and (consts[:1] == [bval]), 'R15.1', 'off:%s:%s' % (name, with_version),
                      '%sBufferOffset = %s + len of parameters %s (the buffers that precede it in the payload)' % (name, bval, prefix), sh.body.where(),
                      'authenticate_message: %sBufferOffset = %s + lengths of parameters %s, but the payload places parameters %s before this buffer'
                      % (name, consts[:1], lp, prefix))
            # the running sum of the preceding lengths is formed in at least 32 bits: no term is narrowed to 16 bits before it is added
            narrow = False
            for n in walk(e):
                if n[0] == 'bin' and n[1].replace('WithOverflow', '') == 'Add':
                    for side in (n[2], n[3]):
                        sd = strip(side)
                        if sd[0] == 'cast' and re.match(r'^[ui](8|16)$', sd[2] or ''):
                            narrow = True
            ctx.check(not narrow, 'R15.1', 'off:%s:width:%s' % (name, with_version), '%sBufferOffset adds the preceding lengths in 32 (or more) bits' % name, sh.body.where(),
                      'authenticate_message sums 16-bit lengths for %sBufferOffset: when the preceding buffers exceed 65535 bytes together (each still fitting its own '
                      '16-bit length) the offset wraps (release) or the client panics (debug)' % name)
            prefix = prefix + [prm]
        # payload concatenation order
        v = resolve(st, strip(st.env.get(0)))
        pay = v[3][1] if v[0] == 'agg' and len(v[3]) > 1 else ('unknown',)
        order = [unwrap_cast(x)[1] if unwrap_cast(x)[0] == 'param' else None for x in byte_parts(pay)]
        ctx.check(order == [p_ for _, p_ in PARTS], 'R15.1', 'payload:order', 'payload = lm || nt || domain || user || workstation || session key', sh.body.where(),
                  'authenticate_message concatenates the payload in parameter order %s (offsets assume %s)' % (order, [p_ for _, p_ in PARTS]))
    ctx.check(set(seen_base) == {True, False}, 'R15.1', 'base:coverage', 'both Version-present and Version-absent layouts are built', ctx.body(AUTH).where())

    # ---- R15.2 sibling agreement -------------------------------------------------------------------------------------
    def single(fn):
        b = ctx.body(fn)
        if fn == 'nla::ntlm::ntowfv2' and b.calls_to('nla::ntlm::ntowfv2_hash'):
            # the password variant written as "hash the password, then the hash variant": compared after inlining the sibling
            import inline
            b = inline.force(P, b, ['nla::ntlm::ntowfv2_hash'])
        r = [resolve(st, strip(st.env.get(0))) for path, st in feasible_paths(b, P) if strip(st.env.get(0))[0] != 'unknown']
        return norm(r[0]) if len(r) >= 1 else None
    a = single('nla::ntlm::ntowfv2')
    h = single('nla::ntlm::ntowfv2_hash')
    good = a is not None and h is not None and a[0] == 'call' and a[1] == 'nla::ntlm::hmac_md5' and h[0] == 'call' and h[1] == 'nla::ntlm::hmac_md5'
    if good:
        key_a, data_a = a[2]
        key_h, data_h = h[2]
        good = data_a == data_h and key_h == ('param', 1) \
            and key_a == ('call', 'nla::ntlm::md4', (('call', 'nla::ntlm::unicode', (('param', 1),)),))
        up = [c for c in calls_in(data_a) if c[0] == 'call' and c[1].endswith('to_uppercase')]
        good = good and len(up) == 1 and ('param', 2) in list(walk(up[0])) and ('param', 3) not in list(walk(up[0]))
    ctx.check(good, 'R15.2', 'ntowfv2:siblings',
              'ntowfv2(password,u,d) = HMAC(md4(unicode(password)), unicode(upper(u)+d)) and ntowfv2_hash(hash,u,d) = HMAC(hash, <same data expression>)',
              ctx.body('nla::ntlm::ntowfv2_hash').where(),
              'ntowfv2 and ntowfv2_hash disagree: a client created from an NT hash derives another response key than one created from the password '
              '(only the user name is upper-cased, the domain is used as is)')
    for fn, callee in (('nla::ntlm::Ntlm::new', 'nla::ntlm::ntowfv2'), ('nla::ntlm::Ntlm::from_hash', 'nla::ntlm::ntowfv2_hash')):
        b = ctx.body(fn)
        for path, st in feasible_paths(b, P):
            v = resolve(st, strip(st.env.get(0)))
            if v[0] != 'agg':
                continue
            fields = dict(zip(v[4], v[3]))
            nt = norm(fields.get('response_key_nt', ('unknown',)))
            lm = norm(fields.get('response_key_lm', ('unknown',)))
            ok_nt = nt[0] == 'call' and nt[1] == callee and [x for x in nt[2]] == [('param', 3), ('param', 2), ('param', 1)]
            ok_lm = lm[0] == 'call' and (lm[1] == callee or lm[1] == 'nla::ntlm::lmowfv2') and [x for x in lm[2]] == [('param', 3), ('param', 2), ('param', 1)]
            ctx.check(ok_nt and ok_lm, 'R15.2', 'wiring:%s' % fn, '%s derives both response keys with %s(secret, user, domain)' % (fn.rsplit('::', 1)[-1], callee.rsplit('::', 1)[-1]),
                      b.where(), '%s wires the response keys as nt=%s lm=%s' % (fn, str(nt)[:120], str(lm)[:120]))
            break
    lo = single('nla::ntlm::lmowfv2')
    ctx.check(lo == ('call', 'nla::ntlm::ntowfv2', (('param', 1), ('param', 2), ('param', 3))), 'R15.2', 'lmowfv2', 'LMOWFv2 = NTOWFv2 (MS-NLMP 3.3.2)', '')

    # ---- R15.3 MIC / R15.4 wiring in read_challenge_message ------------------------------------------------------------
    rc = ctx.body('<nla::ntlm::Ntlm as nla::sspi::AuthenticationProtocol>::read_challenge_message')
    n_ok = 0
    for path, st in feasible_paths(rc, P, limit=400000):
        if ret_kind(st.env.get(0)) != 'ok':
            continue
        n_ok += 1
        if n_ok > 1:
            continue
        mic = path_calls(st, 'nla::ntlm::mic')
        am = path_calls(st, AUTH)
        # the exported session key of this handshake: the field, or the very value stored into it on this path (`let k = random(16);
        # self.exported_session_key = Some(k.clone()); .. rc4k(&kx, &k)`)
        stored = []
        for ev in st.events:
            if ev[0] == 'store' and ev[2]['p'] and ev[2]['p'][-1].get('name') == 'exported_session_key':
                sv = strip(resolve(st, ev[3]))
                stored.append(strip(sv[3][0]) if sv[0] == 'agg' and sv[2] == 'Some' and sv[3] else sv)

        def is_esk(e):
            if any(n[0] == 'field' and n[2] == 'exported_session_key' for n in walk(e)):
                return True
            return any(strip(e) == s_ for s_ in stored)
        good = len(mic) == 1 and len(am) == 1
        if good:
            a0, a1, a2, a3 = [resolve(st, x) for x in mic[0][2]]
            f0 = is_esk(a0)
            f1 = any(n[0] == 'field' and n[2] == 'negotiate_message' for n in walk(a1))
            f2 = unwrap_cast(a2) == ('param', 2) or ('param', 2) in list(walk(a2))
            # tmp message: to_vec(trame![to_vec(auth.0), vec![0;16], auth.1.clone()])
            pushes = [ev for ev in path_calls(st, 'std::vec::Vec::<T, A>::push')]
            tmp = [resolve(st, p_[2][1]) for p_ in pushes[:3]]
            fin = [resolve(st, p_[2][1]) for p_ in pushes[3:6]]
            zero16 = len(tmp) == 3 and has_call(tmp[1], 'std::vec::from_elem') and \
                [fold(c[3][1])[1] for c in calls_in(tmp[1], 'std::vec::from_elem') if c[0] == 'call'][:1] == [16]
            same_parts = len(tmp) == 3 and len(fin) == 3 and has_call(tmp[0], AUTH) and has_call(tmp[2], AUTH) and has_call(fin[0], AUTH) \
                and has_call(fin[2], AUTH) and has_call(fin[1], 'nla::ntlm::mic') and has_call(a3, 'model::data::to_vec')
            good = f0 and f1 and f2 and zero16 and same_parts
        ctx.check(good, 'R15.3', 'mic', 'MIC = mic(exported_session_key, negotiate, challenge (the request), authenticate-with-zeroed-16-byte-MIC); the final token '
                  'has the MIC in that slot', rc.where(),
                  'read_challenge_message does not compute the MIC over (negotiate, challenge, authenticate with a zeroed 16-byte MIC slot) in that order')
        cr = path_calls(st, 'nla::ntlm::compute_response_v2')
        good = len(cr) == 1
        if good:
            a = [resolve(st, x) for x in cr[0][2]]
            good = any(n[0] == 'field' and n[2] == 'response_key_nt' for n in walk(a[0])) and any(n[0] == 'field' and n[2] == 'response_key_lm' for n in walk(a[1])) \
                and any(isinstance(c[2], str) and '"ServerChallenge"' in c[2] for c in consts_in(a[2])) and has_call(a[3], 'model::rnd::random') \
                and any(n[0] == 'agg' and n[2] == 'MsvAvTimestamp' for n in walk(a[4])) and has_call(a[5], 'nla::ntlm::get_payload_field')
        ctx.check(good, 'R15.4', 'response:args', 'compute_response_v2(key_nt, key_lm, ServerChallenge, random client challenge, MsvAvTimestamp, target info)', rc.where(),
                  'read_challenge_message passes the wrong values to compute_response_v2')
        if len(cr) == 1:
            # the 8-byte timestamp is the server's, or the message is refused: no default stands in for a missing MsvAvTimestamp (the NTLMv2 client
            # challenge has a fixed 28-byte header; an empty timestamp shifts every field after it)
            dflt = [c[1].rsplit('::', 1)[-1] for c in calls_in(resolve(st, cr[0][2][4]))
                    if c[0] in ('call', 'via') and re.search(r'::(unwrap_or_default|unwrap_or|unwrap_or_else|or_default|or_insert\w*)$|Default>::default$|Vec::<T>::new$', c[1])]
            ctx.check(not dflt, 'R15.4', 'response:timestamp', 'the timestamp handed to compute_response_v2 is the MsvAvTimestamp value itself (absent -> error)', rc.where(),
                      'read_challenge_message substitutes a default (%s) for a missing MsvAvTimestamp: the AUTHENTICATE token is then built with a client challenge '
                      'whose timestamp field is not 8 bytes long (malformed NTLMv2 response)' % sorted(set(dflt)))
        kx = path_calls(st, 'nla::ntlm::rc4k')
        good = len(kx) == 1 and has_call(resolve(st, kx[0][2][0]), 'nla::ntlm::kx_key_v2') and is_esk(resolve(st, kx[0][2][1]))
        ctx.check(good, 'R15.4', 'kx', 'EncryptedRandomSessionKey = RC4K(KeyExchangeKey, ExportedSessionKey)', rc.where(),
                  'read_challenge_message does not wrap the exported session key with the key exchange key')
        if am:
            a = [resolve(st, x) for x in am[0][2]]
            tags = []
            for x in a[:6]:
                if has_call(x, 'nla::ntlm::rc4k'):
                    tags.append('esk')
                elif any(n[0] == 'field' and n[1][0] == 'call' and n[1][1] == 'nla::ntlm::compute_response_v2' for n in walk(x)) or has_call(x, 'nla::ntlm::compute_response_v2'):
                    f = [n[2] for n in walk(x) if n[0] == 'field' and unwrap_cast(n[1])[0] == 'call' and unwrap_cast(n[1])[1] == 'nla::ntlm::compute_response_v2']
                    tags.append('resp.%s' % (f[0] if f else '?'))
                elif has_call(x, re.compile(r'get_domain_name$')):
                    tags.append('domain')
                elif has_call(x, re.compile(r'get_user_name$')):
                    tags.append('user')
                else:
                    tags.append('const')
            ctx.check(tags == ['resp.1', 'resp.0', 'domain', 'user', 'const', 'esk'], 'R15.4', 'auth:args',
                      'authenticate_message(lm = response.1, nt = response.0, domain, user, workstation "", encrypted session key, server flags)', rc.where(),
                      'read_challenge_message passes %s to authenticate_message (expected lm, nt, domain, user, workstation, session key)' % tags)
    ctx.floor('R15.3', 'Ok paths of read_challenge_message', n_ok, 1)
    cv = ctx.body('nla::ntlm::compute_response_v2')
    for path, st in feasible_paths(cv, P):
        v = resolve(st, strip(st.env.get(0)))
        if v[0] != 'agg':
            continue
        nt, lm, sk = v[3][0], v[3][1], v[3][2]
        good = has_call(nt, 'nla::ntlm::hmac_md5') and has_call(lm, 'nla::ntlm::hmac_md5') and unwrap_cast(sk)[0] == 'call' and unwrap_cast(sk)[1] == 'nla::ntlm::hmac_md5'
        if good:
            s_ = unwrap_cast(sk)
            good = unwrap_cast(s_[3][0]) == ('param', 1) and has_call(s_[3][1], 'nla::ntlm::hmac_md5')
        ctx.check(good, 'R15.4', 'response:structure', 'compute_response_v2 returns (NTProofStr||temp, HMAC(lm key, ..)||client challenge, SessionBaseKey = HMAC(nt key, NTProofStr))',
                  cv.where(), 'compute_response_v2 no longer derives the session base key as HMAC(response_key_nt, nt_proof_str)')
        break

    # ---- R15.7 the text encoding of the names follows *this* challenge: is_unicode is (re)assigned from the flag test on every accepted challenge ----
    rc = ctx.body('<nla::ntlm::Ntlm as nla::sspi::AuthenticationProtocol>::read_challenge_message')
    n_okc = 0
    for path, st in feasible_paths(rc, P, limit=200000):
        if ret_kind(strip(st.env.get(0))) != 'ok':
            continue
        n_okc += 1
        stores = [ev for ev in st.events if ev[0] == 'store' and ev[2]['p'] and ev[2]['p'][-1].get('name') == 'is_unicode']
        good = len(stores) == 1
        if good:
            e = fold(resolve(st, stores[0][3]))
            good = e[0] == 'bin' and e[1] in ('Eq', 'Ne') and any(n[0] == 'bin' and n[1] == 'BitAnd' for n in walk(e)) \
                and any('"NegotiateFlags"' in str(c[2]) for c in consts_in(e) if isinstance(c[2], str))
        ctx.check(good, 'R15.7', 'challenge:is_unicode', 'every accepted challenge stores is_unicode = (NegotiateFlags & NTLMSSP_NEGOTIATE_UNICODE) test of that challenge', rc.where(),
                  'read_challenge_message does not assign is_unicode from the flags of the challenge it is answering on every accepted path (%d store(s)): a context reused for a '
                  'second handshake, or a challenge without the UNICODE bit, gets names in the wrong encoding' % len(stores))
    ctx.floor('R15.7', 'accepting paths of read_challenge_message', n_okc, 1)
    # ---- R15.5 / R15.6 rules shared with C04 (UTF-16 encoders) and C16 (RC4 output step), evaluated on the same facts -------------------
    import c04
    import c16
    c04.rule_utf16(ctx, 'R15.5')
    ctx.include(c16.run, ('R16.6', 'R16.5'), 'R15.6')
