"""C13 - inbound deframing is exact under arbitrary fragmentation (DESIGN.md 4/C13)."""
from common import *
from bits import Bits, describe

META = {
    'level': 'other',
    'explanation': 'Static path analysis of the deframer (tpkt::Client::read, read_payload, Link::read, '
                   'Stream::read_exact) on the MIR of the current tree: every entry->return path of these functions is '
                   'enumerated and, per path, (R13.1) sized transport reads end in Read::read_exact, (R13.2) the sizes '
                   'requested from the link sum to the declared frame length, (R13.3) the header-size guard tested on '
                   'the path equals the header bytes consumed on it and its failing edge returns Err without reading, '
                   '(R13.4) no zero-size read can reach Link::read from the deframer. Decides the structural clauses; '
                   '(R13.6) the frame kind as a function of the first byte, folded statically for all 256 values: TPKT exactly for version byte 3, fast-path for every byte whose action bits are 00; (R13.5) the declared length and the security flags are decoded bit-exactly (bit-provenance abstract domain compared with MS-RDPBCGR 2.2.9.1.2).',
    'assumptions': ['std::io::Read::read_exact fills the buffer or fails (std contract)',
                    'vec![0; n] has length n',
                    ],
    'trusted_base': ['rustc nightly MIR construction', 'mirfacts exporter', 'rules/c13.py, sym.py, facts.py'],
}
META['explanation'] += ' (R13.7) the fast-path length form as a function of the first length byte, folded for all 256 values: two bytes exactly when bit 7 is set, one-byte lengths 2..0x7f all accepted.'

LINK_READ = 'model::link::Link::<S>::read'
READ_PAYLOAD = 'core::tpkt::Client::<S>::read_payload'
STREAM_READ = 'model::link::Stream::<S>::read'
STREAM_READ_EXACT = 'model::link::Stream::<S>::read_exact'


def subst_expr(e, target, repl, depth=0):
    """replace every occurrence of the sub-expression `target` in e"""
    if e == target:
        return repl
    if depth > 40 or not isinstance(e, tuple):
        return e
    return tuple(subst_expr(x, target, repl, depth + 1) if isinstance(x, tuple) else x for x in e)


def fmt_set(s_):
    s_ = sorted(s_)
    return '{' + ', '.join('0x%02x' % x for x in s_[:12]) + (', ... %d values' % len(s_) if len(s_) > 12 else '') + '}'


def is_zero_test(e, target):
    """e separates target == 0 from target != 0 (target unsigned): Eq/Ne(target, 0), Lt(target, 1), Le(target, 0), Gt(target, 0),
    Ge(target, 1) and their mirrored forms -> 'eq' if e true means zero, 'ne' if e true means non-zero, else None"""
    e = strip(e)
    if e[0] != 'bin' or e[1] not in ('Eq', 'Ne', 'Lt', 'Le', 'Gt', 'Ge'):
        return None
    op, a, b = e[1], e[2], e[3]
    mirror = {'Lt': 'Gt', 'Gt': 'Lt', 'Le': 'Ge', 'Ge': 'Le', 'Eq': 'Eq', 'Ne': 'Ne'}
    for x, y, o in ((a, b, op), (b, a, mirror[op])):
        y = fold(y)
        if y[0] == 'const' and y[1] is not None and same_value(x, target):
            c = y[1]
            if (o, c) in (('Eq', 0), ('Lt', 1), ('Le', 0)):
                return 'eq'
            if (o, c) in (('Ne', 0), ('Gt', 0), ('Ge', 1)):
                return 'ne'
    return None


def check_decoding(ctx, rd, st, kind, X, payload, nconst):
    B = Bits()
    if kind == 'Raw':
        x = unwrap_cast(resolve(st, X))
        ok = x[0] == 'mutated' and x[1] == '<model::data::Value<u16> as model::data::Message>::read' \
            and x[3] is not None and strip(x[3])[0] == 'agg' and strip(x[3])[2] == 'BE'
        ctx.check(ok, 'R13.5', 'decode:tpkt_size', 'the TPKT length is the 16-bit big-endian field read after the two header bytes', rd.where(),
                  'tpkt::Client::read does not take the slow-path length from a big-endian U16 read from the header')
        return
    bits = B.eval(X, 16, 8)
    names = {}
    # leaves are u8 reads; order them by the block of the read call
    order = sorted(range(len(B.leaves)), key=lambda i: B.leaves[i][2] if B.leaves[i][0] == 'mutated' else 10 ** 6)
    for n_, i in enumerate(order):
        names[i] = 'byte%d' % (n_ + 1)
    if nconst == 2:     # long form: 2 + 1 header bytes
        want = None
        if len(order) == 2:
            a, b = order
            want = [(b, k) for k in range(8)] + [(a, k) for k in range(7)] + [0]
        ctx.check(want is not None and bits == want, 'R13.5', 'decode:fastpath_long',
                  'long fast-path length = ((byte1 & 0x7f) << 8) | byte2, bit 15 clear  [%s]' % describe(bits, names), rd.where(),
                  'tpkt::Client::read decodes the two-byte fast-path length as [%s]; MS-RDPBCGR 2.2.9.1.2: bits 14..8 = byte1[6..0], bits 7..0 = byte2'
                  % describe(bits, names))
    else:
        want = [(order[0], k) for k in range(8)] + [0] * 8 if len(order) == 1 else None
        ctx.check(want is not None and bits == want, 'R13.5', 'decode:fastpath_short',
                  'short fast-path length = byte1  [%s]' % describe(bits, names), rd.where(),
                  'tpkt::Client::read decodes the one-byte fast-path length as [%s]' % describe(bits, names))
    # security flags: top two bits of the action byte
    if payload[0] == 'agg' and payload[3]:
        B2 = Bits()
        fb = B2.eval(payload[3][0], 8, 8)
        want = None
        if len(B2.leaves) == 1:
            want = [(0, 6), (0, 7), 0, 0, 0, 0, 0, 0]
        first = B2.leaves and B2.leaves[0][0] == 'mutated' and B2.leaves[0][1] == '<u8 as model::data::Message>::read'
        ctx.check(want is not None and fb == want and first, 'R13.5', 'decode:sec_flags:%d' % nconst,
                  'fast-path security flags = bits 7..6 of the first header byte', rd.where(),
                  'tpkt::Client::read extracts the fast-path security flags as [%s] instead of bits 7..6 of the action byte' % describe(fb))


def run(ctx):
    P = ctx.prog

    # ---- R13.1a: Stream::read_exact delegates to Read::read_exact in every arm -------------
    sre = ctx.body(STREAM_READ_EXACT)
    n_ok = 0
    for path in enum_paths(sre):
        st = run_path(sre, path, P)
        if not st.feasible:
            continue
        rk = ret_kind(st.env.get(0))
        if rk != 'ok':
            continue
        n_ok += 1
        exact = path_calls(st, 'std::io::Read::read_exact')
        plain = path_calls(st, 'std::io::Read::read')
        buf_ok = any(unwrap_cast(ev[3][1]) == ('param', 2) or strip(ev[2][1]) == ('param', 2) for ev in exact)
        ctx.check(len(exact) == 1 and not plain and buf_ok, 'R13.1', 'stream_read_exact:path%d' % path[-2] if len(path) > 1 else 'p',
                  'Stream::read_exact Ok path via bb%s fills the caller buffer with exactly one Read::read_exact'
                  % path[1:4], sre.where(),
                  'Stream::read_exact has an Ok path that does not go through std Read::read_exact on the '
                  'caller\'s buffer (short reads would be returned as complete): blocks %s' % path)
    ctx.floor('R13.1', 'Ok paths of Stream::read_exact (one per stream variant)', n_ok, 2)

    # ---- R13.1b / R13.4a: Link::read ------------------------------------------------------
    lr = ctx.body(LINK_READ)
    n_sized = n_unsized = 0
    for path in enum_paths(lr):
        st = run_path(lr, path, P)
        if not st.feasible:
            continue
        if ret_kind(st.env.get(0)) != 'ok':
            continue
        unsized = path_calls(st, STREAM_READ)
        sized = path_calls(st, STREAM_READ_EXACT)
        zero_true = False
        for ev in path_branches(st):
            z = is_zero_test(ev[2], ('param', 2))
            if z and ((z == 'eq') == branch_truth(ev)):
                zero_true = True
            if unwrap_cast(ev[2]) == ('param', 2) and ev[3] == 0:
                zero_true = True        # `match expected_size { 0 => .., n => .. }`: the arm of the value 0
        if unsized:
            n_unsized += 1
            ctx.check(zero_true and not sized, 'R13.1', 'link_read:unsized',
                      'Link::read: the "whatever is available" read happens only when expected_size == 0',
                      unsized[0][1].where(),
                      'Link::read performs an unsized Stream::read on a path where expected_size != 0')
        else:
            n_sized += 1
            good = False
            for ev in sized:
                buf = strip(ev[3][1])
                # &mut buffer where buffer = from_elem(0, expected_size)
                b = unwrap_cast(buf)
                if b[0] == 'call' and 'from_elem' in b[1] and len(b[3]) >= 2 and unwrap_cast(b[3][1]) == ('param', 2):
                    good = True
            ctx.check(len(sized) == 1 and good and not zero_true, 'R13.1', 'link_read:sized',
                      'Link::read: a sized read is one Stream::read_exact into vec![0; expected_size]',
                      lr.where(),
                      'Link::read has an Ok path for expected_size != 0 that is not exactly one '
                      'Stream::read_exact into a buffer of expected_size bytes (blocks %s)' % path)
    ctx.floor('R13.1', 'Ok paths of Link::read (sized / unsized)', n_sized + n_unsized, 2)
    ctx.check(n_sized >= 1, 'R13.1', 'link_read:nosized', 'Link::read has a sized (read_exact) path', lr.where())

    # ---- R13.4: no zero-size Link::read reachable from the deframer -----------------------
    deframer = [b for b in P.find(re.compile(r'^core::tpkt::Client::<S>::(read|read_payload)$'))]
    ctx.floor('R13.4', 'deframer functions', len(deframer), 1)
    n_sites = 0
    for body in deframer:
        sites = body.calls_to(LINK_READ)
        for ordinal, c in enumerate(sites):
            n_sites += 1
            a = c.args[1]
            v = op_const(a)
            if v is not None:
                ctx.check(v > 0, 'R13.4', '%s:const0#%d' % (body.path, ordinal),
                          '%s: Link::read(%d) has a constant non-zero size' % (body.path.rsplit('::', 1)[-1], v), c.where(),
                          '%s calls Link::read(0): size 0 means "whatever is available" and consumes bytes of the next frame' % body.path)
                continue
            # variable size: every path to this call must have tested size != 0
            ok_all = True
            npaths = 0
            for path in enum_paths(body, stop_blocks=[c.block]):
                if path[-1] != c.block:
                    continue
                npaths += 1
                st = run_path(body, path[:-1] + [c.block])
                ev = [e for e in st.events if e[0] == 'call' and e[1].block == c.block]
                arg = ev[-1][2][1]
                guarded = False
                for br in path_branches(st):
                    z = is_zero_test(br[2], arg)
                    if z and ((z == 'ne') == branch_truth(br)):
                        guarded = True
                    if same_value(br[2], arg) and strip(br[2])[0] != 'const':
                        # `match size { 0 => .., n => read(n) }`: a switch on the value itself
                        t = body.blocks[br[1]]['term']
                        if 0 in t['vals'] and br[3] != 0:
                            guarded = True
                if not guarded:
                    ok_all = False
            ctx.check(ok_all and npaths > 0, 'R13.4', '%s:var0#%d' % (body.path, ordinal),
                      '%s: Link::read(n) with variable n is reached only after n != 0 was established (%d path(s))'
                      % (body.path.rsplit('::', 1)[-1], npaths), c.where(),
                      '%s calls Link::read(n) with a size that may be 0 (an empty payload would make the link return '
                      'up to 1500 bytes of the following frames)' % body.path)
    ctx.floor('R13.4', 'Link::read call sites in the deframer', n_sites, 4)

    # ---- R13.2 / R13.3: byte conservation and exact header guards in tpkt::Client::read ---
    rd = ctx.body('core::tpkt::Client::<S>::read')
    n_okp = 0
    n_guard_err = 0
    kinds = set()
    for path in enum_paths(rd):
        st = run_path(rd, path, P)
        if not st.feasible:
            continue
        rk = ret_kind(st.env.get(0))
        reads = path_calls(st, [LINK_READ, READ_PAYLOAD])
        consts = []
        var = []
        for ev in reads:
            a = strip(ev[2][1])
            if a[0] == 'call' and re.search(r'Option::<T>::ok_or(_else)?$', a[1]) and a[3]:
                a = strip(a[3][0])        # `x.checked_sub(K).ok_or_else(err)?`: the value is the Some payload
            if a[0] == 'const':
                consts.append(a[1])
            else:
                var.append((ev, a))
        if rk == 'ok':
            n_okp += 1
            okv = strip(st.env.get(0))
            payload = strip(okv[3][0]) if okv[0] == 'agg' else ('unknown',)
            kind = payload[2] if payload[0] == 'agg' else '?'
            kinds.add(kind)
            key = 'read:ok:%s:%s' % (kind, '+'.join(map(str, consts)))
            good = len(var) == 1 and var[0][0] is reads[-1]
            K = None
            X = None
            if good:
                a = var[0][1]
                csub = None
                if a[0] == 'bin' and a[1] == 'Sub' and strip(a[3])[0] == 'const':
                    X, K = a[2], strip(a[3])[1]
                elif a[0] == 'call' and re.search(r'::checked_sub$', a[1]) and len(a[3]) == 2 and fold(a[3][1])[0] == 'const':
                    # `match length.checked_sub(K) { None => Err(..), Some(n) => read_payload(n) }`: the subtraction and its guard in one
                    X, K = a[3][0], fold(a[3][1])[1]
                    csub = a
                else:
                    good = False
            hdr = sum(consts)
            ctx.check(good and K == hdr, 'R13.2', key,
                      'Ok(%s) path reads %s header bytes then (declared length - %s) payload bytes: sizes sum to the declared length'
                      % (kind, '+'.join(map(str, consts)), K), where(rd, reads[-1][1].block) if reads else rd.where(),
                      'tpkt::Client::read: on an Ok(%s) path the bytes requested from the link (%s + %s) do not add up to the '
                      'declared frame length' % (kind, '+'.join(map(str, consts)), show(var[0][1]) if var else 'nothing'))
            if good:
                # R13.3 the guard on this path: Lt(X, K) taken false
                g = False
                for br in path_branches(st):
                    e = strip(br[2])
                    if e[0] == 'bin' and e[1] == 'Lt' and same_value(e[2], X) and strip(e[3])[0] == 'const':
                        if strip(e[3])[1] == K and not branch_truth(br):
                            g = True
                    if csub is not None and e[0] == 'discr' and strip(e[1]) == csub and br[3] == 1:
                        g = True        # the Some arm of checked_sub(K): length >= K
                    if csub is not None and e[0] == 'discr' and br[3] == 0:
                        x_ = strip(e[1])
                        if x_[0] == 'call' and re.search(r'Option::<T>::ok_or(_else)?$', x_[1]) and x_[3] and strip(x_[3][0]) == csub:
                            g = True    # the Continue edge of `checked_sub(K).ok_or_else(..)?`
                ctx.check(g, 'R13.3', key + ':guard',
                          'Ok(%s) path: the subtraction (length - %d) is preceded on the path by the failed test length < %d'
                          % (kind, K, K), where(rd, reads[-1][1].block),
                          'tpkt::Client::read: the header-size guard on the Ok(%s) path is missing or does not equal the %d header '
                          'bytes (a shorter declared length underflows, a stricter guard rejects legal frames)' % (kind, hdr))
                # R13.5 bit-exact decoding of the declared length and of the security flags (bit-provenance domain)
                check_decoding(ctx, rd, st, kind, X, payload, len(consts))
                # the payload really is the last read's result
                pl = payload[3][-1] if payload[0] == 'agg' and payload[3] else ('unknown',)
                plv = unwrap_cast(pl)
                ctx.check(plv[0] == 'call' and plv[2] == reads[-1][1].block, 'R13.2', key + ':payload',
                          'Ok(%s) returns exactly the bytes of the last (payload) read' % kind, where(rd, reads[-1][1].block))
        elif rk == 'prop' and any(strip(br[2])[0] == 'discr' and br[3] == 1 and strip(strip(br[2])[1])[0] == 'call'
                                  and re.search(r'Option::<T>::ok_or(_else)?$', strip(strip(br[2])[1])[1]) and strip(strip(br[2])[1])[3]
                                  and strip(strip(strip(br[2])[1])[3][0])[0] == 'call' and strip(strip(strip(br[2])[1])[3][0])[1].endswith('::checked_sub')
                                  for br in path_branches(st)):
            # `length.checked_sub(K).ok_or_else(err)?` taken on its error edge: the rejecting path of the header guard
            n_guard_err += 1
            ctx.check(not var, 'R13.3', 'read:err:prop%d' % (path[-3] if len(path) > 2 else 0),
                      'length-below-header branch returns Err without reading a payload', rd.where(),
                      'tpkt::Client::read reads a payload on the path that rejects a too-short declared length')
        elif rk == 'err':
            # an explicit Err: must be the true edge of a Lt(length, K) guard and no payload read after it
            lt = [br for br in path_branches(st) if strip(br[2])[0] == 'bin' and strip(br[2])[1] == 'Lt' and branch_truth(br)]
            lt += [br for br in path_branches(st) if strip(br[2])[0] == 'discr' and strip(strip(br[2])[1])[0] == 'call'
                   and strip(strip(br[2])[1])[1].endswith('::checked_sub') and br[3] == 0]
            if lt:
                n_guard_err += 1
                ctx.check(not var, 'R13.3', 'read:err:%d' % path[-3] if len(path) > 2 else 'read:err',
                          'length-below-header branch returns Err without reading a payload', where(rd, lt[-1][1]),
                          'tpkt::Client::read reads a payload on the path that rejects a too-short declared length')
    # R13.6 frame kind dispatch as a function of the first byte (finite domain: all 256 values folded statically)
    accept = {'Raw': set(), 'FastPath': set()}
    n_disp = 0
    for path in enum_paths(rd):
        st = run_path(rd, path, P)
        if not st.feasible:
            continue
        if ret_kind(st.env.get(0)) != 'ok':
            continue
        okv = strip(st.env.get(0))
        payload = strip(okv[3][0]) if okv[0] == 'agg' else ('unknown',)
        kind = payload[2] if payload[0] == 'agg' else '?'
        first = None
        for br in path_branches(st):
            for n in walk(resolve(st, br[2])):
                if n[0] == 'mutated' and n[1] == '<u8 as model::data::Message>::read' and (first is None or n[2] < first[2]):
                    first = n
        if first is None or kind not in accept:
            continue
        n_disp += 1
        for b in range(256):
            ok = True
            for br in path_branches(st):
                e = fold(subst_expr(resolve(st, br[2]), first, ('const', b, str(b))))
                if e[0] == 'const' and e[1] is not None and strip(br[2])[0] == 'bin':
                    if bool(e[1]) != branch_truth(br):
                        ok = False
                        break
            if ok:
                accept[kind].add(b)
    fp_must = {b for b in range(256) if b & 3 == 0}
    ctx.check(accept['Raw'] == {3}, 'R13.6', 'dispatch:tpkt', 'a frame is deframed as TPKT exactly when its first byte is the TPKT version 3', rd.where(),
              'tpkt::Client::read deframes as TPKT the frames whose first byte is in %s; only version byte 3 is a TPKT frame (T.123 section 8)'
              % fmt_set(accept['Raw']))
    ctx.check(fp_must <= accept['FastPath'] and 3 not in accept['FastPath'], 'R13.6', 'dispatch:fastpath',
              'every first byte with action bits 00 (any security flags / reserved bits) is deframed as fast-path', rd.where(),
              'tpkt::Client::read does not deframe as fast-path the first bytes %s although their action bits are FASTPATH (MS-RDPBCGR 2.2.9.1.2: '
              'action = bits 1..0, flags = bits 7..6)' % fmt_set(fp_must - accept['FastPath']))
    ctx.floor('R13.6', 'Ok paths whose kind depends on the first byte', n_disp, 3)

    # R13.7 length form of a fast-path frame as a function of the first length byte (all 256 values folded statically): the two-byte form is
    # taken exactly when bit 7 is set; in the one-byte form every value from 2 (the header alone) to 0x7f is accepted
    form = {'short': set(), 'long': set()}
    n_form = 0
    for path in enum_paths(rd):
        st = run_path(rd, path, P)
        if not st.feasible or ret_kind(st.env.get(0)) != 'ok':
            continue
        okv = strip(st.env.get(0))
        payload = strip(okv[3][0]) if okv[0] == 'agg' else ('unknown',)
        if not (payload[0] == 'agg' and payload[2] == 'FastPath'):
            continue
        u8reads = sorted({n for br in path_branches(st) for n in walk(resolve(st, br[2]))
                          if n[0] == 'mutated' and n[1] == '<u8 as model::data::Message>::read'}, key=lambda n: n[2])
        nhdr = len([ev for ev in path_calls(st, [LINK_READ, READ_PAYLOAD]) if strip(ev[2][1])[0] == 'const'])
        all_u8 = sorted({n for ev in st.events if ev[0] == 'call' for a in ev[3] for n in walk(a)
                         if n[0] == 'mutated' and n[1] == '<u8 as model::data::Message>::read'} | set(u8reads), key=lambda n: n[2])
        blocks_ = sorted({n[2] for n in all_u8})
        if len(blocks_) < 2:
            continue
        seconds = [n for n in all_u8 if n[2] == blocks_[1]]
        which = 'long' if len(blocks_) >= 3 else 'short'
        n_form += 1
        for b in range(256):
            ok = True
            for br in path_branches(st):
                e0 = resolve(st, br[2])
                if not any(n in seconds for n in walk(e0)):
                    continue
                e = e0
                for second in seconds:
                    e = subst_expr(e, second, ('const', b, str(b)))
                e = fold(e)
                if e[0] == 'const' and e[1] is not None and strip(br[2])[0] == 'bin':
                    if bool(e[1]) != branch_truth(br):
                        ok = False
                        break
                elif strip(br[2])[0] == 'discr':
                    # `x.checked_sub(K)` arms: Some iff x >= K
                    x_ = strip(strip(br[2])[1])
                    while x_[0] == 'call' and re.search(r'Option::<T>::ok_or(_else)?$', x_[1]) and x_[3]:
                        x_ = strip(x_[3][0])
                    if x_[0] == 'call' and x_[1].endswith('::checked_sub') and len(x_[3]) == 2:
                        a_ = resolve(st, x_[3][0])
                        for second in seconds:
                            a_ = subst_expr(a_, second, ('const', b, str(b)))
                        a_ = fold(a_)
                        k_ = fold(x_[3][1])
                        if a_[0] == 'const' and k_[0] == 'const' and a_[1] is not None:
                            some = a_[1] >= k_[1]
                            took_some = (br[3] == 1) if 'ok_or' not in strip(strip(br[2])[1])[1] else (br[3] == 0)
                            if some != took_some:
                                ok = False
                                break
            if ok:
                form[which].add(b)
    want_long = set(range(0x80, 0x100))
    want_short = set(range(2, 0x80))
    ctx.check(form['long'] == want_long and form['short'] == want_short, 'R13.7', 'fastpath:length_form',
              'the two-byte length form is taken exactly for a first length byte with bit 7 set; the one-byte form accepts 2..0x7f', rd.where(),
              'tpkt::Client::read takes the two-byte fast-path length form for first length bytes %s and the one-byte form for %s; MS-RDPBCGR 2.2.9.1.2: '
              'two bytes exactly when bit 7 is set (one-byte lengths 2..0x7f are all legal)' % (fmt_set(form['long']), fmt_set(form['short'])))
    ctx.floor('R13.7', 'Ok(FastPath) paths (one per length form)', n_form, 2)
    ctx.floor('R13.2', 'Ok paths of tpkt::Client::read (slow path, fast path long, fast path short)', n_okp, 3)
    ctx.floor('R13.3', 'rejecting paths (declared length shorter than header)', n_guard_err, 1)
    ctx.check(kinds >= {'Raw', 'FastPath'}, 'R13.2', 'read:kinds', 'both payload kinds (Raw, FastPath) are produced', rd.where())
