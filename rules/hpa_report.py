"""HPA obligations per property: assert sites from the interval engine + panicking call sites + allocation sizes + loop
progress, restricted to the functions reachable from the property's entry points, with a hostility classification of the
sites that remain open (DESIGN.md 3.1-3.4)."""
from common import *
import dsl
import hpa
import shapeflow

UNWRAP_RX = re.compile(r'^std::(option::Option::<T>|result::Result::<T, E>)::(unwrap|expect)$')
PANIC_RX = re.compile(r'^(core::panicking::(panic|panic_fmt|panic_display|panic_explicit|unreachable_display|assert_failed.*)|std::rt::begin_panic.*|core::panicking::panic_nounwind.*)$')
VEC_INDEX_RX = re.compile(r'^(<std::vec::Vec<T, A> as std::ops::Index(Mut)?<I>>::index(_mut)?|core::slice::index::<impl std::ops::Index(Mut)?<I> for \[T\]>::index(_mut)?)$')
HASH_INDEX_RX = re.compile(r'^<std::collections::HashMap<K, V, S(, A)?> as std::ops::Index<&Q>>::index$')
ALLOC_RX = re.compile(r'^(std::vec::from_elem|std::vec::Vec::<T>::with_capacity|std::vec::Vec::<T, A>::resize|std::vec::Vec::<T, A>::reserve)$')
HOSTILE_SRC = re.compile(r'byteorder::ReadBytesExt::read_|^model::data::Message::visit$|^nla::asn1::ASN1::visit$|^model::data::Value::<Type>::inner$|'
                         r'^std::io::Read::read|^model::link::Link::<S>::read$|^model::link::Stream::<S>::read|Cursor::<T>::position$|'
                         r'^yasna::|BERReader|^x509_parser::|native_tls::Certificate::to_der|^nla::ntlm::get_payload_field$|^nla::ntlm::read_target_info$|'
                         r'^core::per::read_|^nla::cssp::read_ts_|^model::data::Array::<T>::inner$')
CLIENT_SRC = re.compile(r'^model::rnd::random$|^nla::ntlm::(hmac_md5|md4|md5|unicode|z|rc4k|mic|sign_key|seal_key|kx_key_v2|ntowfv2.*|lmowfv2)$|'
                        r'to_uppercase$|String::|^<.* as model::unicode::Unicode>::to_unicode$|^model::data::to_vec$|^nla::asn1::to_der$|'
                        r'^std::vec::Vec::<T>::new$|^nla::cssp::create_ts_|encode_utf16|^std::vec::from_elem$')
# typestate fields: Option fields of client objects assigned only by client code (API misuse, not hostile input) - DESIGN.md 3.2
TYPESTATE_FIELDS = {('core::mcs::Client', 'user_id'), ('core::mcs::Client', 'server_data'), ('nla::ntlm::Ntlm', 'exported_session_key'),
                    ('nla::ntlm::Ntlm', 'negotiate_message'), ('core::global::Client', 'share_id')}
CAST_KIND = {'U8': {'U8'}, 'U16': {'U16'}, 'U32': {'U32'}, 'Slice': {'Bytes'}, 'Component': {'Comp'}, 'Trame': {'Trame', 'Array'}}
ASN1_KIND = {'nla::asn1::SequenceOf': 'SequenceOf', 'std::vec::Vec<u8>': 'OctetString', 'u32': 'U32', 'bool': 'Bool', 'i64': 'Enumerate'}


class Report:
    def __init__(self, P):
        self.P = P
        self.eng = hpa.Engine(P).run()
        self.sf = shapeflow.ShapeFlow(P)
        self._hostile_param = {}

    # ------------------------------------------------------------------------------------------------------------
    def reachable(self, entries, include_tests=False):
        roots = [e for e in entries if e in self.P.bodies]
        return self.P.reachable_bodies(roots)

    def sites_for(self, keys):
        """all obligations (Site objects) of the given bodies"""
        out = []
        for k in sorted(keys):
            it = self.eng.results.get(k)
            b = self.P.bodies[k]
            if it is None:
                continue
            for s_ in it.sites:
                if s_.verdict != 'discharged' and self.sum_part(s_):
                    s_.verdict, s_.rule, s_.detail = 'discharged', 'D-sumpart', 'length of a component minus the length of one of its own fields'
            out.extend(it.sites)
            out.extend(self.call_sites(k, b, it))
            out.extend(self.loop_sites(k, b, it))
        return out

    # ------------------------------------------------------------------------------------------------------------
    def call_sites(self, key, body, it):
        out = []
        ords = {}
        for c in body.calls:
            name = c.callee
            if c.block not in it.in_states or it.in_states[c.block].dead:
                continue        # statically dead under the computed intervals
            kind = None
            if UNWRAP_RX.match(name):
                kind = 'unwrap'
            elif PANIC_RX.match(name):
                kind = 'panic'
            elif shapeflow.INDEX_RX.match(name):
                kind = 'mapindex'
            elif HASH_INDEX_RX.match(name):
                kind = 'hashindex'
            elif VEC_INDEX_RX.match(name):
                kind = 'sliceindex'
            elif ALLOC_RX.match(name):
                kind = 'alloc'
            elif name in ('nla::rc4::Rc4::new', 'nla::rc4::Rc4::process'):
                kind = 'precond'
            elif re.search(r'slice::<impl \[T\]>::(copy_from_slice|split_at|split_at_mut|chunks|chunks_exact|windows)$', name):
                kind = 'slicefn'
            if kind is None:
                continue
            n = ords.get((kind, name), 0)
            ords[(kind, name)] = n + 1
            sig = '%s:%s#%d' % (kind, name.rsplit('::', 1)[-1] if kind != 'mapindex' else (const_str(c.args[1]) or '?'), n)
            s = hpa.Site(body, c.block, kind, '%s at %s' % (name, c.where()), sig, list(c.args))
            s.verdict, s.rule, s.detail = self.discharge_call(key, body, it, c, kind)
            out.append(s)
        return out

    def discharge_call(self, key, body, it, c, kind):
        st = it.state_at_term(c.block)
        name = c.callee
        if kind == 'panic' and key in ('nla::rc4::Rc4::new', 'nla::rc4::Rc4::process'):
            # assert!() on a precondition: dead if every call site in the program establishes the precondition (D-precond)
            bad = []
            for cc in self.P.callers.get(key, []):
                ck = self.P.key_of(cc.body)
                it2 = self.eng.results.get(ck)
                if it2 is None:
                    bad.append(cc.where())
                    continue
                v, r, d = self.discharge_precond(ck, cc.body, it2, cc, it2.state_at_term(cc.block))
                if v != 'discharged':
                    bad.append('%s (%s)' % (cc.where(), d))
            if not bad and self.P.callers.get(key):
                return 'discharged', 'D-precond', 'precondition established at all %d call sites' % len(self.P.callers.get(key))
            return 'open', None, 'precondition not established at call site(s) %s' % bad
        if kind == 'panic' and key.startswith('model::data::Array::<T>::from_trame::{closure'):
            ok, why = self.from_trame_write_only()
            return ('discharged', 'D-writeonly', why) if ok else ('open', None, why)
        if kind == 'panic':
            # an explicit panic in a live block; expansion of assert!/debug_assert! inside the std formatting machinery is not ours
            if c.term['span'].get('exp') and not c.term['span'].get('cs_file', '').startswith('src/') and not c.file.startswith('src/'):
                return 'discharged', 'D-ext', 'panic inside a std macro expansion outside the crate'
            return 'open', None, 'explicit panic reachable'
        if kind == 'mapindex':
            k_ = const_str(c.args[1])
            cs = self.sf.ctors_of(body, c.args[0], c.block)
            if cs is not None and k_ is not None and all(all(k_ in ks for ks in self.sf.keysets(F)) for F in cs):
                return 'discharged', 'D-shape', 'key "%s" exists in %s' % (k_, sorted(x.rsplit('::', 1)[-1] for x in cs))
            if self.sf.sequence_index_ok(body, c):
                return 'discharged', 'D-shape', 'ASN.1 sequence key "%s" inserted by the builder' % k_
            return 'open', None, 'key "%s" is not a field of every component that can reach this index: %s' % (
                k_, sorted(x.rsplit('::', 1)[-1] for x in cs) if cs else 'unknown constructor')
        if kind == 'unwrap':
            return self.discharge_unwrap(key, body, it, c)
        if kind == 'hashindex':
            # dominated by contains_key(same map, same key) == true
            for g in body.calls:
                if re.search(r'HashMap::<K, V, S(, A)?>::contains_key$', g.callee) and g.target is not None:
                    e = bool_edges(body, g.target)
                    same = self.same_arg(body, g.args[0], c.args[0]) and self.same_key(body, g.args[1], c.args[1])
                    if e and same and body.dominated_by_edges(c.block, [(g.target, e[0])]):
                        return 'discharged', 'D-guard', 'dominated by contains_key'
            # Component::read: dynamic_size[name] under contains_key(name)
            return 'open', None, 'HashMap index without a dominating contains_key'
        if kind == 'sliceindex':
            return self.discharge_slice_index(key, body, it, c, st)
        if kind == 'alloc':
            return self.discharge_alloc(key, body, it, c, st)
        if kind == 'precond':
            return self.discharge_precond(key, body, it, c, st)
        if kind == 'slicefn':
            return 'open', None, 'slice function with a length precondition'
        return 'open', None, ''

    def same_arg(self, body, a, b):
        ra = set((o.kind, o.param, o.call.block if o.call else None, o.path) for o in origins(body, a))
        rb = set((o.kind, o.param, o.call.block if o.call else None, o.path) for o in origins(body, b))
        la, lb = self.sf.root_local(body, op_local(a)) if op_local(a) is not None else None, self.sf.root_local(body, op_local(b)) if op_local(b) is not None else None
        return (la is not None and la == lb) or (ra and ra == rb)

    def same_key(self, body, a, b):
        def k(x):
            out = []
            for o in origins(body, x):
                if o.kind == 'const' and isinstance(o.extra, dict) and 'promoted' in o.extra:
                    from sym import eval_promoted
                    out.append(repr(eval_promoted(body, o.extra['promoted'])))
                elif o.kind == 'const':
                    out.append(repr(o.const))
                elif o.kind == 'param':
                    out.append('param%d%s' % (o.param, o.path))
                elif o.kind == 'call':
                    out.append('call@%d' % o.call.block)
                else:
                    out.append(repr(o.extra)[:40])
            return sorted(out)
        return k(a) == k(b) and bool(k(a))

    # ---- unwrap -----------------------------------------------------------------------------------------------
    def discharge_unwrap(self, key, body, it, c):
        arg = c.args[0]
        os_ = origins(body, arg, stop_at=lambda cc: True)
        # field of self with typestate meaning
        for o in origins(body, arg):
            if o.kind == 'param' and o.path:
                for owner, fld in TYPESTATE_FIELDS:
                    if o.path[-1] == fld or (len(o.path) > 1 and o.path[-2] == fld):
                        bad = self.typestate_broken(owner, fld)
                        if bad:
                            return 'open', None, 'TYPESTATE: Option field %s is not only assigned Some(..): %s; a hostile reply can leave it None' % (fld, bad)
                        return 'typestate', 'typestate', 'Option field %s set by client code only (API-order misuse, not server data)' % fld
        calls = [o.call for o in os_ if o.kind == 'call']
        names = [x.callee for x in calls]
        # Some(..) assigned on every path since entry (e.g. self.x = Some(..) ... self.x.as_ref().unwrap())
        # cast!(DataType::K, receiver).unwrap()
        vis = [x for x in calls if x.callee in shapeflow.VISIT]
        if vis and all(x.callee in shapeflow.VISIT or x.callee == 'model::error::RdpError::new' for x in calls):
            ok, why = self.cast_ok(body, vis[0], arg)
            return ('discharged', 'D-shape', why) if ok else ('open', None, why)
        # to_vec / to_der / unicode: writing into a growable in-memory buffer cannot fail (D-writer)
        if any(n in ('model::data::Message::write', 'nla::asn1::ASN1::write_asn1') or n.endswith('as model::data::Message>::write') or n.endswith('as nla::asn1::ASN1>::write_asn1') for n in names):
            tgt_ok = self.writes_to_memory(body, [x for x in calls if 'write' in x.callee][0])
            if tgt_ok and self.no_own_write_errors():
                return 'discharged', 'D-writer', 'write into Cursor<Vec<u8>> / yasna DER writer; no Message::write impl constructs an error itself'
        if any(n.endswith('Hmac<D> as hmac::Mac>::new_varkey') or 'new_varkey' in n for n in names):
            return 'discharged', 'D-ext', 'Hmac::new_varkey accepts any key length'
        if any(n == 'std::sync::Mutex::<T>::lock' for n in names):
            return 'client', 'client', 'mutex poisoning (not server data)'
        # D-some: local Option assigned Some on all paths (line.unwrap() style) is relational: left open
        return 'open', None, 'unwrap of %s' % (sorted(set(n.rsplit('::', 1)[-1] for n in names)) or [repr(o) for o in os_][:2])

    def writes_to_memory(self, body, wcall):
        if len(wcall.args) < 2:
            return False
        for o in origins(body, wcall.args[1]):
            if o.kind == 'call' and o.call.callee in ('std::vec::Vec::<T>::new',):
                continue
            if o.kind == 'param':
                # yasna DERWriter parameter
                ty = body.local_ty(o.param)
                if 'yasna::DERWriter' in ty or 'DERWriterSeq' in ty:
                    continue
                return False
            if o.kind == 'call' and ('yasna' in o.call.callee or 'DERWriter' in o.call.callee):
                continue
            if o.kind in ('const', 'agg'):
                continue
            return False
        return True

    def no_own_write_errors(self):
        """no Message::write / ASN1::write_asn1 impl in the crate builds an Err value itself (they only propagate with ?)"""
        if hasattr(self, '_nowe'):
            return self._nowe
        ok = True
        for im in self.P.impls:
            if im.get('trait') not in ('model::data::Message', 'nla::asn1::ASN1'):
                continue
            for itm in im['items']:
                if itm['name'] not in ('write', 'write_asn1'):
                    continue
                b = self.P.bodies.get(itm['path'])
                if b is None:
                    continue
                for bi in range(b.n):
                    for stt in b.blocks[bi]['stmts']:
                        if stt['s'] == 'assign' and stt['rv']['rv'] == 'agg' and stt['rv'].get('adt') == 'std::result::Result' and stt['rv'].get('variant') == 'Err':
                            ok = False
        self._nowe = ok
        return ok

    def cast_ok(self, body, vis, unwrap_arg):
        """cast!(DataType::K, recv).unwrap(): every field that can be the receiver has kind K (and is not optional)"""
        # K = variant downcast feeding the Ok(..) of the Result being unwrapped
        want = None
        vl = vis.dest['l']
        for b in range(body.n):
            for stt in body.blocks[b]['stmts']:
                if stt['s'] == 'assign' and stt['rv']['rv'] == 'use' and is_place_op(stt['rv']['op']):
                    pl = stt['rv']['op']['place']
                    if pl['l'] == vl and pl['p'] and pl['p'][0]['k'] == 'downcast':
                        want = pl['p'][0]['variant']
        if want is None:
            return False, 'cannot determine the cast target'
        recv = vis.args[0]
        if vis.callee == 'nla::asn1::ASN1::visit':
            return self.asn1_cast_ok(body, vis, want)
        kinds = self.receiver_kinds(body, recv, vis.block)
        if kinds is None:
            return False, 'cast!(%s) on a receiver of unknown shape' % want
        if kinds and all(k in CAST_KIND.get(want, set()) for k in kinds):
            return True, 'cast!(%s) on field(s) of kind %s' % (want, sorted(kinds))
        return False, 'cast!(%s) on field(s) of kind %s' % (want, sorted(kinds))

    def receiver_kinds(self, body, recv, at_block):
        """set of base kinds ('U16', 'Bytes', 'Comp', 'Opt', ...) of the messages `recv` may denote, or None"""
        kinds = set()
        for o in origins(body, recv):
            if o.kind == 'call' and shapeflow.INDEX_RX.match(o.call.callee):
                k_ = const_str(o.call.args[1])
                cs = self.sf.ctors_of(body, o.call.args[0], o.call.block)
                if cs is None or k_ is None:
                    return None
                for F in cs:
                    fs = self.sf.field(F, k_)
                    if not fs:
                        return None
                    for f in fs:
                        kinds.add(dsl.base_kind(f.ty) if f.kind in ('Check', 'Dyn') else f.kind)
            elif o.kind == 'call' and o.call.callee.endswith('Iterator>::next'):
                ek = self.element_kinds(body, o.call.args[0])
                if ek is None:
                    return None
                kinds |= ek
            elif o.kind == 'param' and body.kind == 'Closure':
                ek = self.closure_elem_kinds(body, o.param)
                if ek is None:
                    return None
                kinds |= ek
            elif o.kind in ('const', 'agg'):
                continue
            elif o.kind == 'call' and o.call.callee == 'model::error::RdpError::new':
                continue
            else:
                return None
        return kinds

    def element_kinds(self, body, iter_arg):
        """kinds of the elements produced by iterating a trame obtained by cast!(Trame, m["k"]) / Array"""
        kinds = set()
        for o in origins(body, iter_arg):
            if o.kind == 'call' and o.call.callee in shapeflow.VISIT and o.call.args:
                for o2 in origins(body, o.call.args[0]):
                    if o2.kind == 'call' and shapeflow.INDEX_RX.match(o2.call.callee):
                        k_ = const_str(o2.call.args[1])
                        cs = self.sf.ctors_of(body, o2.call.args[0], o2.call.block)
                        if cs is None or k_ is None:
                            return None
                        for F in cs:
                            for f in self.sf.field(F, k_):
                                inner = f.inner_ty if f.kind == 'Array' else None
                                if inner is None:
                                    return None
                                kinds.add(dsl.base_kind(inner) if dsl.classify(inner)[0] in ('Check', 'Dyn') else dsl.classify(inner)[0])
                    elif o2.kind in ('const', 'agg') or (o2.kind == 'call' and o2.call.callee == 'model::error::RdpError::new'):
                        continue
                    else:
                        return None
            elif o.kind in ('const', 'agg') or (o.kind == 'call' and o.call.callee == 'model::error::RdpError::new'):
                continue
            else:
                return None
        return kinds or None

    def closure_elem_kinds(self, cbody, param):
        """closure handed to Iterator::map in its parent: parameter = element of the mapped iterator"""
        res = None
        for parent in self.P.creators_of(cbody):
            got = None
            for c in parent.calls:
                if c.callee.endswith('Iterator::map') and len(c.args) == 2 and got is None:
                    for o in origins(parent, c.args[1]):
                        if o.kind == 'agg' and o.extra.get('closure') == cbody.path:
                            got = self.element_kinds(parent, c.args[0])
                    l = op_local(c.args[1])
                    for d in parent.defs.get(l, []) if l is not None else []:
                        if got is None and d[0] == 'stmt' and d[3]['rv']['rv'] == 'agg' and d[3]['rv'].get('closure') == cbody.path:
                            got = self.element_kinds(parent, c.args[0])
            if got is None:
                return None
            res = got if res is None else (res | got if isinstance(res, set) and isinstance(got, set) else res)
        return res

    def asn1_cast_ok(self, body, vis, want):
        """cast!(ASN1Type::K, seq["key"]) / element of a SequenceOf built in this function: static type of the boxed value"""
        tys = set()
        for o in origins(body, vis.args[0]):
            if o.kind == 'call' and shapeflow.INDEX_RX.match(o.call.callee):
                k_ = const_str(o.call.args[1])
                t = self.asn1_inserted_type(body, k_)
                if t is None:
                    return False, 'ASN.1 key "%s": inserted type unknown' % k_
                tys.add(t)
            elif o.kind == 'call' and re.search(r'slice::<impl \[T\]>::(get|first|last)$|Option::<T>::(ok_or|ok_or_else)$', o.call.callee):
                # element of SequenceOf.inner: the factory closure's boxed type
                t = self.asn1_factory_type(body)
                if t is None:
                    return False, 'SequenceOf element type unknown'
                tys.add(t)
            elif o.kind in ('const', 'agg') or (o.kind == 'call' and o.call.callee == 'model::error::RdpError::new'):
                continue
            elif o.kind == 'call' and o.call.callee.endswith('from_residual'):
                continue
            else:
                return False, 'ASN.1 receiver of unknown origin %r' % o
        good = tys and all(t == want for t in tys)
        return good, 'cast!(ASN1Type::%s) on node(s) of static type %s' % (want, sorted(tys))

    @staticmethod
    def asn1_kind_of_type(ty):
        t = ty
        for _ in range(4):
            m = re.match(r'^nla::asn1::(Explicit|Implicit)Tag<(.*)>$', t)
            if m:
                t = m.group(2)
            else:
                break
        if t.startswith('indexmap::IndexMap<std::string::String, std::boxed::Box<dyn nla::asn1::ASN1'):
            return 'Sequence'
        return ASN1_KIND.get(t)

    def asn1_inserted_type(self, body, key):
        for b in [body] + self.P.closures_of(body.path):
            prev_box = None
            for c in b.calls:
                if c.callee == dsl.BOXNEW:
                    prev_box = c
                if c.callee == dsl.INSERT and len(c.args) == 3:
                    ks = []
                    for o in origins(b, c.args[1]):
                        src = [o]
                        if o.kind == 'call' and o.call.callee.endswith('to_string') and o.call.args:
                            src = origins(b, o.call.args[0])
                        for o2 in src:
                            if o2.kind == 'const' and isinstance(o2.const, str):
                                m = re.match(r'^(?:const )?"(.*)"$', o2.const)
                                if m:
                                    ks.append(m.group(1))
                    if key in ks:
                        for o in origins(b, c.args[2], stop_at=lambda cc: cc.callee == dsl.BOXNEW):
                            if o.kind == 'call' and o.call.callee == dsl.BOXNEW and o.call.generic_args:
                                return self.asn1_kind_of_type(o.call.generic_args[0])
        return None

    def asn1_factory_type(self, body):
        for cb in self.P.closures_of(body.path):
            for c in cb.calls:
                if c.callee == dsl.BOXNEW and c.generic_args and c.dest['l'] == 0:
                    return self.asn1_kind_of_type(c.generic_args[0])
            for o in origins(cb, {'k': 'copy', 'place': {'l': 0, 'p': []}}, stop_at=lambda cc: cc.callee == dsl.BOXNEW):
                if o.kind == 'call' and o.call.callee == dsl.BOXNEW and o.call.generic_args:
                    return self.asn1_kind_of_type(o.call.generic_args[0])
        return None

    # ---- D-writeonly -----------------------------------------------------------------------------------------------
    def may_read(self, fn, param, depth=0, seen=None):
        """may function fn call Message::read on (something built from) its parameter `param`?"""
        seen = seen if seen is not None else set()
        if (fn, param) in seen or depth > 8:
            return False
        seen.add((fn, param))
        b = self.P.bodies.get(fn)
        if b is None:
            return True
        for c in b.calls:
            for ai, a in enumerate(c.args):
                if not any(o.kind == 'param' and o.param == param for o in origins(b, a)):
                    continue
                n = c.callee
                if n == 'model::data::Message::read' or n.endswith('as model::data::Message>::read'):
                    if ai == 0:
                        return True
                    continue
                if is_transparent(n) or re.search(r'^model::data::to_vec$|Message::(write|length|visit|options)$|Message>::(write|length|visit|options)$|'
                                                   r'^std::|^core::|^alloc::|indexmap::', n):
                    continue
                ck = n if n in self.P.bodies else b.crate + '::' + n
                if ck in self.P.bodies:
                    if self.may_read(ck, ai + 1, depth + 1, seen):
                        return True
                    # the callee may embed the value in what it returns: follow the result in this function
                    if not c.dest['p'] and self.value_may_be_read(b, c.dest['l'], depth + 1, seen):
                        return True
                else:
                    return True
        # returned to the callers: they may read it
        if any(o.kind == 'param' and o.param == param for o in origins(b, {'k': 'copy', 'place': {'l': 0, 'p': []}})):
            for cc in self.P.callers.get(fn, []):
                if not cc.dest['p'] and self.value_may_be_read(cc.body, cc.dest['l'], depth + 1, seen):
                    return True
        return False

    def value_may_be_read(self, body, local, depth, seen):
        for s_ in forward_uses(body, local):
            if s_['sink'] == 'call':
                c = s_['call']
                n = c.callee
                if n == 'model::data::Message::read' or n.endswith('as model::data::Message>::read'):
                    if s_['argi'] == 0:
                        return True
                    continue
                if is_transparent(n) or re.search(r'^model::data::to_vec$|Message::(write|length|visit|options)$|Message>::(write|length|visit|options)$|'
                                                   r'^std::|^core::|^alloc::|indexmap::', n):
                    continue
                ck = n if n in self.P.bodies else body.crate + '::' + n
                if ck in self.P.bodies:
                    if self.may_read(ck, s_['argi'] + 1, depth + 1, seen):
                        return True
                    if not c.dest['p'] and depth < 8 and self.value_may_be_read(body, c.dest['l'], depth + 1, seen):
                        return True
                else:
                    return True
        # flows into the return value of this function
        if local == 0:
            return False
        for d in body.defs.get(0, []):
            pass
        if any((o.kind == 'call' and not o.call.dest['p'] and o.call.dest['l'] == local) for o in origins(body, {'k': 'copy', 'place': {'l': 0, 'p': []}})):
            for cc in self.P.callers.get(self.P.key_of(body), []):
                if not cc.dest['p'] and depth < 8 and self.value_may_be_read(cc.body, cc.dest['l'], depth + 1, seen):
                    return True
        return False

    def from_trame_write_only(self):
        """the panicking factory installed by Array::from_trame is only invoked by Array::read: no value produced by from_trame
        may reach a Message::read call"""
        if hasattr(self, '_ftwo'):
            return self._ftwo
        sites = []
        for b in self.P.bodies.values():
            for c in b.calls:
                if c.callee == 'model::data::Array::<T>::from_trame':
                    sites.append(c)
        bad = []
        for c in sites:
            if c.dest['p'] or self.value_may_be_read(c.body, c.dest['l'], 0, set()):
                bad.append(c.where())
        res = (not bad and bool(sites), 'arrays built by from_trame (%d sites) flow only into write/length/visit paths' % len(sites) if not bad
               else 'an array built by from_trame at %s may reach Message::read (its factory panics)' % bad)
        self._ftwo = res
        return res

    # ---- slices --------------------------------------------------------------------------------------------------
    def discharge_slice_index(self, key, body, it, c, st):
        """v[i] / v[a..b] / v[a..] through the Index trait: needs i < len, a <= b <= len"""
        if st is None:
            return 'open', None, 'no state'
        base = it.base_of_ref(op_local(c.args[0])) if op_local(c.args[0]) is not None else None
        ln = st.iv.get(('cell', 'len', base)) if base is not None else None
        idx = c.args[1]
        ity = body.local_ty(op_local(idx)) if op_local(idx) is not None else (idx.get('ty') if isinstance(idx, dict) else '')
        if ity in ('usize',):
            iv = it.eval_op(st, idx)
            if ln is not None and iv is not None and iv[1] < ln[0]:
                return 'discharged', 'D-range', 'index %s < len %s' % (iv, ln)
            if base is not None and it.known_le(st, it.opkey(idx), ('cell', 'len', base), strict=True):
                return 'discharged', 'D-guard', 'index < len established by a guard'
            return 'open', None, 'index %s, len %s' % (iv, ln)
        if 'std::ops::Range<usize>' in ity or 'RangeFrom<usize>' in ity or 'RangeTo<usize>' in ity:
            lo = hi = None
            l = op_local(idx)
            for d in body.defs.get(l, []) if l is not None else []:
                if d[0] == 'stmt' and d[3]['rv']['rv'] == 'agg':
                    ops = d[3]['rv']['ops']
                    flds = d[3]['rv'].get('fields', [])
                    for fname, o in zip(flds, ops):
                        v = op_const(o)
                        if fname == 'start':
                            lo = (v, o)
                        if fname == 'end':
                            hi = (v, o)
            need = None
            if hi is not None and hi[0] is not None:
                need = hi[0]
            elif hi is None and lo is not None and lo[0] is not None:
                need = lo[0]
            if need is not None and (lo is None or lo[0] is None or hi is None or (hi[0] is not None and lo[0] <= hi[0])):
                if ln is not None and ln[0] >= need:
                    return 'discharged', 'D-range', 'constant range up to %d within len %s' % (need, ln)
                fl = self.fixed_len(body, c.args[0])
                if fl is not None and fl >= need:
                    return 'discharged', 'D-len', 'constant range up to %d within fixed length %d' % (need, fl)
            return 'open', None, 'range index with len %s' % (ln,)
        return 'open', None, 'index of type %s' % ity

    def fixed_len(self, body, op, depth=0):
        """D-len: constant length of a client-built buffer (digest outputs, vec![_; K], random(K))"""
        lens = set()
        for o in origins(body, op):
            if o.kind == 'call':
                n = o.call.callee
                if n in ('nla::ntlm::hmac_md5', 'nla::ntlm::md5', 'nla::ntlm::md4'):
                    lens.add(16)
                elif n == 'std::vec::from_elem':
                    v = op_const(o.call.args[1])
                    lens.add(v)
                elif n == 'model::rnd::random':
                    lens.add(op_const(o.call.args[0]))
                elif (n if n in self.P.bodies else body.crate + '::' + n) in self.P.bodies and depth < 5:
                    cb = self.P.bodies[n if n in self.P.bodies else body.crate + '::' + n]
                    proj = [{'k': 'field', 'name': f_, 'i': 0, 'owner': '', 'ty': ''} for f_ in o.path]
                    lens.add(self.fixed_len(cb, {'k': 'copy', 'place': {'l': 0, 'p': proj}}, depth + 1))
                else:
                    lens.add(None)
            elif o.kind == 'param':
                ck = self.P.key_of(body)
                cl = self.P.callers.get(ck, [])
                if not cl:
                    lens.add(None)
                for c in cl:
                    lens.add(self.fixed_len(c.body, c.args[o.param - 1], depth + 1) if o.param - 1 < len(c.args) and depth < 5 else None)
            elif o.kind == 'agg' and o.extra.get('variant') == 'None':
                continue
            else:
                lens.add(None)
        if lens and None not in lens:
            return min(lens)
        return None

    # ---- allocation ---------------------------------------------------------------------------------------------------
    def discharge_alloc(self, key, body, it, c, st):
        if st is None:
            return 'open', None, ''
        szop = c.args[1] if c.callee.endswith('from_elem') or c.callee.endswith('resize') else c.args[-1]
        iv = it.eval_op(st, szop)
        # bytes, not elements: the element type is the callee's type argument (Vec::<T>::with_capacity, from_elem::<T>); a type that is not a
        # primitive integer is counted as 64 bytes (Capability is 80, a boxed message 16 plus its heap part)
        ga = (c.generic_args or [''])[0]
        esz = {'u8': 1, 'i8': 1, 'bool': 1, 'u16': 2, 'i16': 2, 'u32': 4, 'i32': 4, 'u64': 8, 'i64': 8, 'usize': 8, 'isize': 8}.get(ga, 64)
        if iv is not None and iv[1] * esz <= (1 << 21):
            return 'discharged', 'D-range', 'allocation of at most %d element(s) of %d byte(s)' % (iv[1], esz)
        if it.is_mem(st, szop, small_ok=(iv is not None and iv[1] * esz <= (1 << 21))):
            return 'discharged', 'D-mem', 'allocation sized by the length of received / existing data'
        # Component::read: size registered by a DynOption closure: bounded by the closures' Size payloads
        if key.endswith("as model::data::Message>::read") and 'IndexMap' in key:
            b = self.closure_size_bound()
            if b is not None and b <= (1 << 21):
                return 'discharged', 'D-range', 'sizes registered by DynOption closures are bounded by %d' % b
            return 'open', None, 'a DynOption closure can register a size up to %s' % b
        return 'open', None, 'allocation size %s' % (iv,)

    def closure_size_bound(self):
        """max upper bound of the usize placed in MessageOption::Size by any closure in the crate"""
        if hasattr(self, '_csb'):
            return self._csb
        worst = 0
        for k, b in self.P.bodies.items():
            it = self.eng.results.get(k)
            if it is None:
                continue
            for bi in range(b.n):
                if bi not in it.in_states or it.in_states[bi].dead:
                    continue
                for si, stt in enumerate(b.blocks[bi]['stmts']):
                    if stt['s'] == 'assign' and stt['rv']['rv'] == 'agg' and stt['rv'].get('adt') == 'model::data::MessageOption' and stt['rv'].get('variant') == 'Size':
                        # evaluate the size operand in the state reaching this statement
                        st = it.in_states[bi].copy()
                        for s2 in b.blocks[bi]['stmts'][:si]:
                            if s2['s'] == 'assign':
                                it.assign(st, s2['place'], s2['rv'], bi, 0)
                        iv = it.eval_op(st, stt['rv']['ops'][1])
                        if iv is None:
                            worst = None
                        elif worst is not None:
                            worst = max(worst, iv[1])
        self._csb = worst
        return worst

    def discharge_precond(self, key, body, it, c, st):
        if c.callee == 'nla::rc4::Rc4::new':
            fl = self.fixed_len(body, c.args[0])
            if fl is not None and 1 <= fl <= 256:
                return 'discharged', 'D-precond', 'key length %d' % fl
            return 'open', None, 'Rc4::new key length not a known constant in [1,256]'
        if c.callee == 'nla::rc4::Rc4::process':
            # output = vec![0; input.len()]  or both of the same constant length
            i_, o_ = c.args[1], c.args[2]
            for o in origins(body, o_):
                if o.kind == 'call' and o.call.callee == 'std::vec::from_elem':
                    n = o.call.args[1]
                    for on in origins(body, n):
                        if on.kind == 'call' and on.call.callee.endswith('::len') and on.call.args and self.same_arg(body, on.call.args[0], i_):
                            return 'discharged', 'D-precond', 'output = vec![0; input.len()]'
                    v = op_const(n)
                    fi = self.slice_const_len(body, i_)
                    if v is not None and fi == v:
                        return 'discharged', 'D-precond', 'input and output both %d bytes' % v
            # output is a fixed-size array `[0u8; K]` borrowed as a slice, input a K-byte slice
            vis = set()
            origins(body, o_, visited=vis)
            ks = {int(m.group(1)) for l in vis for m in [re.match(r'^\[u8; (\d+)\]$', body.locals[l]['ty'])] if m}
            fi = self.slice_const_len(body, i_)
            if len(ks) == 1 and fi is not None and fi in ks:
                return 'discharged', 'D-precond', 'input and output both %d bytes' % fi
            return 'open', None, 'Rc4::process input/output lengths not shown equal'
        return 'open', None, ''

    def slice_const_len(self, body, op):
        for o in origins(body, op):
            if o.kind == 'call' and VEC_INDEX_RX.match(o.call.callee):
                l = op_local(o.call.args[1])
                for d in body.defs.get(l, []) if l is not None else []:
                    if d[0] == 'stmt' and d[3]['rv']['rv'] == 'agg' and d[3]['rv'].get('fields') == ['start', 'end']:
                        a, b = op_const(d[3]['rv']['ops'][0]), op_const(d[3]['rv']['ops'][1])
                        if a is not None and b is not None:
                            return b - a
        return self.fixed_len(body, op)

    # ---- loops --------------------------------------------------------------------------------------------------------------
    def loop_sites(self, key, body, it):
        """progress rule: every cycle contains a call that consumes input or advances a finite iterator"""
        out = []
        heads = set()
        for b in range(body.n):
            if body.blocks[b]['cleanup'] or b not in body.live_blocks:
                continue
            for s in body.succ[b]:
                if s <= b and b in body.reachable(s) and s in body.reachable(b):
                    heads.add(s)
        for h in sorted(heads):
            cyc = [x for x in body.reachable(h) if h in body.reachable(x)]
            calls = [body.call_at(x) for x in cyc if body.blocks[x]['term']['t'] == 'call']
            names = [c.callee for c in calls if c]
            progress = [n for n in names if hpa.is_range_next(n) or re.search(r'Iterator>::next$|Iterator::next$|ReadBytesExt::read_|std::io::Read::read_exact$|as model::data::Message>::read$|^model::data::Message::read$|'
                                                      r'Vec::<T, A>::pop$|^core::per::read_', n)]
            s = hpa.Site(body, h, 'loop', 'loop at bb%d' % h, 'loop#%d' % sorted(heads).index(h))
            if progress:
                s.verdict, s.rule, s.detail = 'discharged', 'D-progress', 'each iteration calls %s' % sorted(set(p.rsplit('::', 1)[-1] for p in progress))
            else:
                s.verdict, s.rule, s.detail = 'open', None, 'no input-consuming call or finite iterator in the cycle'
            out.append(s)
        return out

    def sum_part(self, site):
        """Sub(length(M), len(x)) where x is (a view of) one field of the same unmodified component M: length(M) >= len(x)"""
        if site.kind != 'overflow' or not site.sig.startswith('Overflow(Sub') or len(site.ops) != 2:
            return False
        body = site.body
        lm = rm = None
        for o in origins(body, site.ops[0]):
            if o.kind == 'call' and re.search(r'Message::length$|Message>::length$', o.call.callee) and o.call.args:
                lm = self.sf.root_local(body, op_base(o.call.args[0])) if op_base(o.call.args[0]) is not None else None
        for o in origins(body, site.ops[1]):
            if o.kind == 'call' and o.call.callee.endswith('::len') and o.call.args:
                for o2 in origins(body, o.call.args[0]):
                    if o2.kind == 'call' and o2.call.callee in shapeflow.VISIT and o2.call.args:
                        for o3 in origins(body, o2.call.args[0]):
                            if o3.kind == 'call' and shapeflow.INDEX_RX.match(o3.call.callee) and op_base(o3.call.args[0]) is not None:
                                rm = self.sf.root_local(body, op_base(o3.call.args[0]))
        if lm is None or rm is None or lm != rm:
            return False
        # M must not be modified in this function (no &mut borrow of it)
        for b in range(body.n):
            for stt in body.blocks[b]['stmts']:
                if stt['s'] == 'assign' and stt['rv']['rv'] == 'ref' and stt['rv'].get('mut') and stt['rv']['place']['l'] == lm:
                    return False
        return True

    # ---- hostility ------------------------------------------------------------------------------------------------------------
    def typestate_broken(self, owner, fld):
        """None if every store to owner.fld in the program is an Option aggregate built in place (Some(value) after the value was
        obtained, or None in a constructor); else a description of the offending store (e.g. `= fallible().ok()`)"""
        cache = self.__dict__.setdefault('_ts', {})
        if (owner, fld) in cache:
            return cache[(owner, fld)]
        bad = None
        for k, b in self.P.bodies.items():
            for bi in range(b.n):
                bl = b.blocks[bi]
                if bl['cleanup']:
                    continue
                for stt in bl['stmts']:
                    if stt['s'] != 'assign' or not stt['place']['p']:
                        continue
                    last = stt['place']['p'][-1]
                    if last.get('k') == 'field' and last.get('name') == fld and last.get('owner') == owner:
                        rv = stt['rv']
                        ok = rv['rv'] == 'agg' and rv.get('adt') == 'std::option::Option'
                        if not ok and rv['rv'] == 'use' and is_place_op(rv['op']) and not rv['op']['place']['p']:
                            ds = b.defs.get(rv['op']['place']['l'], [])
                            ok = len(ds) == 1 and ds[0][0] == 'stmt' and ds[0][3]['rv']['rv'] == 'agg' and ds[0][3]['rv'].get('adt') == 'std::option::Option'
                            if not ok and len(ds) == 1 and ds[0][0] == 'call':
                                bad = bad or '%s stores the result of %s (%s)' % (k, ds[0][2].callee, where(b, bi))
                        if not ok and bad is None:
                            bad = '%s stores a value that is not Some(..)/None built in place (%s)' % (k, where(b, bi))
                t = bl['term']
                if t['t'] == 'call' and t['dest']['p']:
                    last = t['dest']['p'][-1]
                    if last.get('k') == 'field' and last.get('name') == fld and last.get('owner') == owner:
                        bad = bad or '%s stores the result of %s (%s)' % (k, t.get('resolved') or t.get('callee'), where(b, bi))
        cache[(owner, fld)] = bad
        return bad

    def hostile(self, site, depth=0):
        """does the failing condition of an open site depend on server-controlled data? (backward slices, through callers)"""
        body = site.body
        if site.kind == 'unwrap' and site.detail.startswith('TYPESTATE:'):
            site.why = 'typestate assumption broken'
            return True
        if site.kind in ('panic', 'mapindex', 'loop'):
            site.why = 'reachable from server-triggered code'
            return True
        ops = site.ops[1:] if site.kind == 'hashindex' else site.ops
        for o in ops:
            if isinstance(o, dict):
                r = self.op_hostile_why(body, o, 0)
                if r:
                    site.why = r
                    return True
        return False

    def op_hostile(self, body, op, depth):
        r = self.op_hostile_why(body, op, depth)
        return r is not None

    def op_hostile_why(self, body, op, depth):
        """None if the operand depends on client-side data only, else a short reason"""
        if depth > 16:
            return None
        vis = set()
        os_ = origins(body, op, visited=vis)
        rf = self.read_filled(body)
        hit = vis & rf
        if hit:
            return 'value filled by a read from the stream (local %s)' % (body.local_name(sorted(hit)[0]) or '_%d' % sorted(hit)[0])
        for o in os_:
            r = self.origin_hostile(body, o, depth)
            if r:
                return r
        return None

    def read_filled(self, body):
        """locals whose content is filled from a stream: receivers of Message::read / buffers of Read::read*"""
        key = id(body)
        cache = self.__dict__.setdefault('_rf', {})
        if key in cache:
            return cache[key]
        out = set()
        for c in body.calls:
            n = c.callee
            idx = None
            if n == 'model::data::Message::read' or n.endswith('as model::data::Message>::read') or n.endswith('as nla::asn1::ASN1>::read_asn1') or n == 'nla::asn1::ASN1::read_asn1':
                idx = 0
            elif re.search(r'std::io::Read::read(_exact|_to_end)?$|Stream::<S>::read(_exact)?$|^nla::asn1::from_(ber|der)$', n):
                idx = 1 if 'from_' not in n else 0
            if idx is not None and idx < len(c.args) and op_base(c.args[idx]) is not None:
                l = op_base(c.args[idx])
                out.add(self.sf.root_local(body, l))
                for t in hpa.Interp(self.eng, body, self.P.key_of(body)).ref_targets(l):
                    out.add(t)
        cache[key] = out
        return out

    def origin_hostile(self, body, o, depth):
        if o.kind == 'call' and not o.call.dest['p'] and o.call.dest['l'] in self.read_filled(body):
            return 'value filled by a read from the stream (%s)' % o.call.callee.rsplit('::', 1)[-1]
        if o.kind == 'call':
            n = o.call.callee
            if HOSTILE_SRC.search(n):
                return 'source %s' % n.rsplit('::', 1)[-1]
            if CLIENT_SRC.search(n) or is_transparent(n):
                return None
            if re.search(r'::len$|Message::length$|Message>::length$|unwrap_or(_else|_default)?$|Option::<T>::(map|and_then|ok_or)$|Iterator>::next$|Iterator::next$|len_utf16$|::(min|max|saturating_sub|checked_(add|sub|mul)|wrapping_(add|sub))$', n) and o.call.args:
                for a in o.call.args:
                    r = self.op_hostile_why(body, a, depth + 1)
                    if r:
                        return r
                return None
            ck = n if n in self.P.bodies else body.crate + '::' + n
            if ck in self.P.bodies:
                cb = self.P.bodies[ck]
                r = self.op_hostile_why(cb, {'k': 'copy', 'place': {'l': 0, 'p': []}}, depth + 1)
                return ('via %s: %s' % (n.rsplit('::', 1)[-1], r)) if r else None
            for a in o.call.args:
                r = self.op_hostile_why(body, a, depth + 1)
                if r:
                    return 'via %s: %s' % (n.rsplit('::', 1)[-1], r)
            return None
        if o.kind == 'param':
            if o.path:
                # a field of a parameter object: hostile if some store to that field anywhere in the program stores a hostile value
                r = self.field_hostile_why(body, o.param, o.path, depth + 1)
                if r:
                    return r
            return self.param_hostile_why(body, o.param, depth + 1)
        if o.kind == 'unknown':
            return 'unknown origin'
        return None

    def field_hostile_why(self, body, param, path, depth):
        if depth > 8:
            return None
        ty = re.sub(r'^&(mut )?', '', body.local_ty(param) or '')
        owner = re.sub(r'<.*$', '', ty)
        fld = path[0]
        key = (owner, fld)
        memo = self.__dict__.setdefault('_fh', {})
        if key in memo:
            return memo[key]
        memo[key] = None            # in progress / default
        res = None
        for k, b in self.P.bodies.items():
            if res:
                break
            for bi in range(b.n):
                bl = b.blocks[bi]
                if bl['cleanup']:
                    continue
                for stt in bl['stmts']:
                    if stt['s'] != 'assign' or not stt['place']['p']:
                        continue
                    last = stt['place']['p'][-1]
                    if last.get('k') == 'field' and last.get('name') == fld and (last.get('owner') or '').split('<')[0] == owner:
                        rv = stt['rv']
                        ops = [rv['op']] if rv['rv'] == 'use' else list(rv.get('ops', [])) if rv['rv'] == 'agg' else []
                        for op in ops:
                            if isinstance(op, dict):
                                r = self.op_hostile_why(b, op, depth + 1)
                                if r:
                                    res = 'field %s.%s stored in %s: %s' % (owner.rsplit('::', 1)[-1], fld, k.rsplit('::', 1)[-1], r)
                                    break
                t = bl['term']
                if not res and t['t'] == 'call' and t['dest']['p']:
                    last = t['dest']['p'][-1]
                    if last.get('k') == 'field' and last.get('name') == fld and (last.get('owner') or '').split('<')[0] == owner:
                        c = b.call_at(bi)
                        ck = c.callee if c.callee in self.P.bodies else b.crate + '::' + c.callee
                        if HOSTILE_SRC.search(c.callee):
                            res = 'field %s.%s stored from %s' % (owner.rsplit('::', 1)[-1], fld, c.callee.rsplit('::', 1)[-1])
                        elif ck in self.P.bodies:
                            r = self.op_hostile_why(self.P.bodies[ck], {'k': 'copy', 'place': {'l': 0, 'p': []}}, depth + 1)
                            if r:
                                res = 'field %s.%s stored from %s: %s' % (owner.rsplit('::', 1)[-1], fld, c.callee.rsplit('::', 1)[-1], r)
        memo[key] = res
        return res

    def _old_op_hostile(self, body, op, depth):
        if depth > 4:
            return True
        for o in origins(body, op):
            if o.kind == 'call':
                n = o.call.callee
                if HOSTILE_SRC.search(n):
                    return True
                if CLIENT_SRC.search(n):
                    continue
                if re.search(r'::len$|Message::length$|Message>::length$', n) and o.call.args:
                    if self.op_hostile(body, o.call.args[0], depth + 1):
                        return True
                    continue
                ck = n if n in self.P.bodies else body.crate + '::' + n
                if ck in self.P.bodies:
                    cb = self.P.bodies[ck]
                    if self.op_hostile(cb, {'k': 'copy', 'place': {'l': 0, 'p': []}}, depth + 1):
                        return True
                    continue
                # unknown external call: be conservative only if it takes a hostile argument
                if any(self.op_hostile(body, a, depth + 1) for a in o.call.args):
                    return True
            elif o.kind == 'param':
                if self.param_hostile(body, o.param, depth + 1):
                    return True
            elif o.kind == 'unknown':
                return True
        return False

    def param_hostile_why(self, body, param, depth):
        key = (self.P.key_of(body), param)
        if key in self._hostile_param:
            return self._hostile_param[key]
        self._hostile_param[key] = None      # cycle guard
        res = None
        k = self.P.key_of(body)
        if body.kind == 'Closure':
            # DynOption filter closures and element factories receive parsed values; closures of client-side iterators do not
            res = 'closure parameter (parsed value)' if re.search(r'core::|nla::|model::', k) and not k.startswith('core::gcc::client_core_data') else None
        elif body.j.get('impl_trait') in ('model::data::Message', 'nla::asn1::ASN1', 'nla::sspi::GenericSecurityService', 'nla::sspi::AuthenticationProtocol') and param > 1:
            ty = body.local_ty(param)
            if re.search(r'dyn std::io::Read|&\[u8\]|BERReader', ty):
                res = 'trait method parameter carrying received bytes'
        else:
            callers = self.P.callers.get(k, [])
            if not callers:
                ty = body.local_ty(param)
                if re.search(r'dyn std::io::Read|^&\[u8\]|^&mut \[u8\]|BERReader|Cursor<', ty):
                    res = 'entry point parameter carrying received bytes'
                if k.endswith('::decompress') or 'codec::rle' in k:
                    res = 'bitmap event from the server'
            for c in callers:
                if param - 1 < len(c.args):
                    r = self.op_hostile_why(c.body, c.args[param - 1], depth + 1)
                    if r:
                        res = 'from %s: %s' % (c.body.path.rsplit('::', 1)[-1], r)
                        break
        self._hostile_param[key] = res
        return res

    def param_hostile(self, body, param, depth):
        key = (self.P.key_of(body), param)
        if key in self._hostile_param:
            return self._hostile_param[key]
        self._hostile_param[key] = False      # cycle guard
        res = False
        if body.kind == 'Closure':
            res = True          # DynOption / factory closures receive parsed values
        else:
            callers = self.P.callers.get(self.P.key_of(body), [])
            if not callers:
                ty = body.local_ty(param)
                # public parser entry points: raw bytes / readers are server data; numbers and strings come from the embedding program
                res = bool(re.search(r'dyn std::io::Read|^&\[u8\]|^&mut \[u8\]|BERReader|Cursor<', ty))
                if self.P.key_of(body).endswith('::decompress') or 'codec::rle' in self.P.key_of(body):
                    res = True
            for c in callers:
                if param - 1 < len(c.args) and self.op_hostile(c.body, c.args[param - 1], depth + 1):
                    res = True
                    break
        self._hostile_param[key] = res
        return res


def op_base(op):
    if is_place_op(op):
        return op['place']['l']
    return None
