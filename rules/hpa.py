"""A4: hostile-panic analysis (DESIGN.md section 3).

A forward, flow-sensitive interval abstract interpretation of MIR bodies with
  * branch refinement (comparisons against constants and between values, propagated through value-preserving copies/casts
    and through pure getters on unmodified places),
  * relational facts a < b / a <= b between values (killed on reassignment),
  * payload intervals for Option<int> / Result<int, _> values (checked_add, ok_or, ?, unwrap_or ...),
  * interprocedural summaries: parameter intervals = join over all call sites in the program, return intervals, and
    per-field joins for struct fields (fixpoint over the whole crate),
and an enumeration of every panic-capable site (overflow / bounds / division asserts, panicking calls from a closed table,
explicit panics) with a verdict per site: discharged (by which rule), or undischarged.
Nothing is executed; unknown constructs evaluate to the full range of their type (sound over-approximation)."""
import re
from collections import defaultdict, deque
from facts import op_const, op_local, is_place_op, match_name, origins

TOP64 = (0, (1 << 64) - 1)
LEN_MAX = 1 << 28          # assumption A-mem: no in-memory message buffer exceeds 256 MiB (frames are <= 64 KiB); sums of a few fit u32/usize


def type_range(int_info):
    if not int_info:
        return None
    bits, signed = int_info
    if bits == 1:
        return (0, 1)
    if signed:
        return (-(1 << (bits - 1)), (1 << (bits - 1)) - 1)
    return (0, (1 << bits) - 1)


def ty_range(ty):
    m = re.match(r'^(u|i)(8|16|32|64|128|size)$', ty or '')
    if ty == 'bool':
        return (0, 1)
    if not m:
        return None
    bits = 64 if m.group(2) == 'size' else int(m.group(2))
    return type_range((bits, m.group(1) == 'i'))


def payload_ty(ty):
    """int type carried by Option<int> / Result<int, E> / ControlFlow<_, int>"""
    m = re.match(r'^std::option::Option<([ui](?:8|16|32|64|size))>$', ty or '')
    if m:
        return m.group(1)
    m = re.match(r'^std::result::Result<([ui](?:8|16|32|64|size)), .*>$', ty or '')
    if m:
        return m.group(1)
    m = re.match(r'^std::ops::ControlFlow<.*, ([ui](?:8|16|32|64|size))>$', ty or '')
    if m:
        return m.group(1)
    return None


THRESHOLDS = [0, 1, 2, 7, 8, 15, 16, 31, 32, 63, 64, 127, 128, 255, 256, 1500, 4096, 32767, 32768, 65534, 65535, 65536, 131070, 1 << 20, 1 << 21,
              (1 << 28), (1 << 31) - 1, (1 << 32) - 1, 1 << 32, 1 << 33, 1 << 34, 1 << 40, (1 << 63) - 1, (1 << 64) - 1]
NEG_THRESHOLDS = [0, -1, -128, -32768, -(1 << 31), -(1 << 63)]
EMPTY = (1, 0)     # "no payload": the Option/Result value is None/Err on this path


def join(a, b):
    if a is None:
        return b
    if b is None:
        return a
    if a[0] > a[1]:
        return b
    if b[0] > b[1]:
        return a
    return (min(a[0], b[0]), max(a[1], b[1]))


def meet(a, b):
    if a is None:
        return b
    if b is None:
        return a
    return (max(a[0], b[0]), min(a[1], b[1]))


def clip(iv, rng):
    """result of a wrapping operation: exact if inside the type range, else the whole range"""
    if iv is None or rng is None:
        return rng
    if iv[0] >= rng[0] and iv[1] <= rng[1]:
        return iv
    return rng


class State:
    __slots__ = ('iv', 'org', 'facts', 'cmp', 'dead', 'mem', 'aff')

    def __init__(self):
        self.iv = {}        # key -> interval ; keys: ('l', n) int local | ('p', n) payload of Option/Result local | ('t', n, i) tuple field
        self.org = {}       # local -> key of the value it is a value-preserving copy of (('l', m) | ('cell', ...))
        self.facts = set()  # (keyA, op, keyB) with op in '<', '<='
        self.cmp = {}       # bool local -> (op, left operand descriptor, right operand descriptor, negated)
        self.mem = set()    # keys holding sizes of in-memory objects (len()/length() results and their sums): assumption A-mem
        self.aff = {}       # key -> (kind, source key, constant): value = source + c ('add') or source & c ('and'), source unmodified since
        self.dead = False

    def copy(self):
        s = State()
        s.iv = dict(self.iv)
        s.org = dict(self.org)
        s.facts = set(self.facts)
        s.cmp = dict(self.cmp)
        s.mem = set(self.mem)
        s.aff = dict(self.aff)
        s.dead = self.dead
        return s

    def join_with(self, o, widen=False, ranges=None):
        # ranges: key -> type range (used to clip widened intervals)
        """self := self JOIN o ; returns True if changed"""
        if o.dead:
            return False
        if self.dead:
            self.iv, self.org, self.facts, self.cmp, self.dead = dict(o.iv), dict(o.org), set(o.facts), dict(o.cmp), False
            self.mem = set(o.mem)
            self.aff = dict(o.aff)
            return True
        changed = False
        # a tuple payload is absent (vacuous) on an edge where the carrier is None / Err
        for k in list(o.iv.keys()):
            if k[0] == 'pt' and k not in self.iv and ('ptnone', k[1]) in self.iv:
                self.iv[k] = EMPTY
        for k in list(self.iv.keys()):
            if k not in o.iv and k[0] == 'pt' and ('ptnone', k[1]) in o.iv:
                continue
            if k not in o.iv:
                del self.iv[k]
                changed = True
                continue
            a, b = self.iv[k], o.iv[k]
            j = join(a, b)
            if j != a:
                if widen:
                    # widening with thresholds (bounds of the machine integer types and a few protocol constants)
                    lo = a[0] if j[0] >= a[0] else max([t for t in NEG_THRESHOLDS if t <= j[0]], default=-(1 << 130))
                    hi = a[1] if j[1] <= a[1] else min([t for t in THRESHOLDS if t >= j[1]], default=(1 << 130))
                    j = (lo, hi)
                    if ranges is not None:
                        r = ranges(k)
                        if r is not None:
                            j = (max(j[0], r[0]), min(j[1], r[1]))
                            if j[0] > j[1]:
                                j = r
                        elif j[0] < -(1 << 64) or j[1] > (1 << 64):
                            j = (max(j[0], -(1 << 127)), min(j[1], (1 << 128) - 1))
                self.iv[k] = j
                changed = True
        for k in list(self.org.keys()):
            if o.org.get(k) != self.org[k]:
                del self.org[k]
                changed = True
        for k in list(self.aff.keys()):
            if o.aff.get(k) != self.aff[k]:
                del self.aff[k]
                changed = True
        nm = self.mem & o.mem
        if nm != self.mem:
            self.mem = nm
            changed = True
        nf = self.facts & o.facts
        if nf != self.facts:
            self.facts = nf
            changed = True
        for k in list(self.cmp.keys()):
            if o.cmp.get(k) != self.cmp[k]:
                del self.cmp[k]
                changed = True
        return changed


class Site:
    __slots__ = ('body', 'block', 'kind', 'desc', 'verdict', 'rule', 'detail', 'sig', 'ops', 'why')

    def __init__(self, body, block, kind, desc, sig, ops=None):
        self.body = body
        self.block = block
        self.kind = kind
        self.desc = desc
        self.sig = sig
        self.verdict = None
        self.rule = None
        self.detail = ''
        self.ops = ops or []
        self.why = ''

    def where(self):
        return '%s:%d' % (self.body.file, self.body.block_line(self.block))


PURE_GETTERS = {
    'model::data::Value::<Type>::inner': 'inner',
    'std::vec::Vec::<T, A>::len': 'len', 'core::slice::<impl [T]>::len': 'len', 'std::slice::<impl [T]>::len': 'len',
    'std::string::String::len': 'len', 'std::str::<impl str>::len': 'len',
    'model::data::Message::length': 'mlen',
}
PURE_GETTER_RX = re.compile(r'^<.* as model::data::Message>::length$')


class Engine:
    """whole-program fixpoint: parameter joins, return summaries, field joins"""

    def __init__(self, P):
        self.P = P
        self.phase2 = False
        self.known_called = set()
        self.param = {}       # body key -> {param index: interval}  (join over call sites; absent = no in-crate caller)
        self.ret = {}         # body key -> interval of the int / payload return value
        self.field = {}       # (owner, name) -> interval (int or payload)
        self.has_caller = set()
        self.results = {}     # body key -> Interp (last run)
        self.closure_size = {}    # closure key -> interval of MessageOption::Size payloads it can return

    def run(self, keys=None, max_rounds=12):
        # phase 1: summaries (returns, fields) with whatever parameter information is available on the way;
        # phase 2: parameter joins recomputed from scratch against the (sound, fixed-point) summaries of phase 1, so that an
        # imprecise early value of a parameter does not stick
        self._run(keys, max_rounds)
        # phase 2 is a least fixpoint from the roots: a function with in-crate callers is analysed only once a caller has
        # supplied argument intervals (its parameter join starts at bottom)
        self.param = {}
        self.phase2 = True
        self.known_called = set(self.has_caller)
        self.__dict__.pop('_cs_memo', None)
        self._run(keys, max_rounds)
        return self

    def _run(self, keys=None, max_rounds=12):
        P = self.P
        keys = list(keys) if keys is not None else list(P.bodies.keys())
        pending = deque(keys)
        inq = set(keys)
        rounds = defaultdict(int)
        callers_of = defaultdict(set)
        while pending:
            k = pending.popleft()
            inq.discard(k)
            rounds[k] += 1
            if rounds[k] > max_rounds:
                continue
            b = P.bodies[k]
            if self.phase2 and k in self.known_called and k not in self.param:
                rounds[k] -= 1
                continue        # no caller has been analysed yet: parameters are still bottom
            it = Interp(self, b, k, widen_params=rounds[k] > 6)
            it.run()
            self.results[k] = it
            # propagate argument intervals to callees
            for ck, argivs in it.call_args:
                callers_of[ck].add(k)
                cur = self.param.setdefault(ck, {})
                ch = False
                for i, iv in argivs.items():
                    old = cur.get(i)
                    nw = join(old, iv) if old is not None else iv
                    if nw != old:
                        if rounds[ck] > 6 and old is not None:
                            rng = it.P_param_range(ck, i)
                            nw = rng if rng else nw
                        cur[i] = nw
                        ch = True
                if ck not in self.has_caller:
                    self.has_caller.add(ck)
                    ch = True
                if ch and ck in P.bodies and ck not in inq:
                    pending.append(ck)
                    inq.add(ck)
            # return summary
            if it.ret_iv is not None:
                old = self.ret.get(k)
                nw = join(old, it.ret_iv) if old is not None else it.ret_iv
                if nw != old:
                    self.ret[k] = nw
                    for c in callers_of.get(k, ()):
                        if c not in inq:
                            pending.append(c)
                            inq.add(c)
            # field stores
            for fk, iv in it.field_stores:
                old = self.field.get(fk)
                nw = join(old, iv) if old is not None else iv
                if nw != old:
                    self.field[fk] = nw
                    for k2 in keys:
                        if k2 not in inq and fk in self.results.get(k2, _EMPTY).field_reads:
                            pending.append(k2)
                            inq.add(k2)
        return self


    def len_preserving(self, ck):
        """local function that never changes the number of elements of the Vec behind its &mut self (it only iterates):
        no Vec length mutator is called and `*self` is never reassigned"""
        memo = self.__dict__.setdefault('_lp', {})
        if ck in memo:
            return memo[ck]
        b = self.P.bodies.get(ck)
        ok = b is not None and b.local_ty(1).startswith('&mut std::vec::Vec<') if b is not None and b.arg_count >= 1 else False
        if ok:
            for c in b.calls:
                if re.search(r'Vec::<T, A>::(push|pop|insert|remove|clear|truncate|resize|resize_with|extend\w*|append|drain|retain|swap_remove|dedup\w*|split_off|set_len)$', c.callee):
                    ok = False
            for bi in range(b.n):
                for stt in b.blocks[bi]['stmts']:
                    if stt['s'] == 'assign' and stt['place']['l'] == 1 and len(stt['place']['p']) == 1 and stt['place']['p'][0]['k'] == 'deref':
                        ok = False
        memo[ck] = ok
        return ok

    def ret_for_consts(self, ck, args, argiv, caller, depth=0):
        """return interval of callee `ck` for a call whose integer arguments are all constants (context-sensitive, memoised)"""
        cb = self.P.bodies.get(ck)
        if cb is None or cb.n > 80:
            return None
        consts = {}
        for i, a in enumerate(args):
            pi = i + 1
            if pi < len(cb.locals) and type_range(cb.locals[pi].get('int')) is not None:
                if argiv[i] is None or argiv[i][0] != argiv[i][1]:
                    return None
                consts[pi] = argiv[i]
        if not consts:
            return None
        key = (ck, tuple(sorted(consts.items())))
        memo = self.__dict__.setdefault('_cs_memo', {})
        if key in memo:
            return memo[key]
        memo[key] = None      # recursion guard
        it = Interp(self, cb, ck)
        it.param_override = consts
        it.record = False
        it.run()
        memo[key] = it.ret_iv
        return it.ret_iv


class _Empty:
    field_reads = ()


_EMPTY = _Empty()


class Interp:
    def __init__(self, eng, body, key, widen_params=False):
        self.eng = eng
        self.P = eng.P
        self.body = body
        self.key = key
        self.sites = []
        self.call_args = []       # (callee key, {param idx: interval})
        self.ret_iv = None
        self.field_stores = []
        self.field_reads = set()
        self.in_states = {}
        self.visits = defaultdict(int)
        self.site_index = {}
        self.param_override = None
        self.record = True

    # ---------------------------------------------------------------- helpers
    def P_param_range(self, ck, i):
        b = self.P.bodies.get(ck)
        if b is None or i >= len(b.locals):
            return None
        return type_range(b.locals[i].get('int')) or ty_range(payload_ty(b.locals[i]['ty']))

    def lrange(self, l):
        return type_range(self.body.locals[l].get('int'))

    def key_range(self, k):
        if k[0] == 'l':
            return self.lrange(k[1])
        if k[0] == 'p':
            return self.prange(k[1])
        if k[0] == 'cell' and k[1] in ('len', 'mlen'):
            return (0, LEN_MAX)
        if k[0] == 't':
            return None
        return None

    def prange(self, l):
        return ty_range(payload_ty(self.body.locals[l]['ty']))

    def key_of_place(self, pl):
        """state key for a place, or None if not tracked"""
        if not pl['p']:
            return ('l', pl['l'])
        p = pl['p']
        if len(p) == 1 and p[0]['k'] == 'field' and p[0]['name'].isdigit() and not p[0].get('owner'):
            return ('t', pl['l'], int(p[0]['name']))
        # payload projections: (x as Some).0 / (x as Ok).0 / (x as Continue).0
        if len(p) == 2 and p[0]['k'] == 'downcast' and p[0]['variant'] in ('Some', 'Ok', 'Continue') and p[1]['k'] == 'field' and p[1]['name'] == '0':
            return ('p', pl['l'])
        # a tuple carried as payload: (x as Ok).0.i  (`let (a, b) = helper(..)?`)
        if len(p) == 3 and p[0]['k'] == 'downcast' and p[0]['variant'] in ('Some', 'Ok', 'Continue') and p[1]['k'] == 'field' and p[1]['name'] == '0' \
                and p[2]['k'] == 'field' and p[2]['name'].isdigit() and not p[2].get('owner'):
            return ('pt', pl['l'], int(p[2]['name']))
        return None

    def place_range(self, pl):
        """type range of the value at a place (from the last projection's type or the local's type)"""
        if not pl['p']:
            return self.lrange(pl['l'])
        last = pl['p'][-1]
        if last['k'] == 'field':
            return ty_range(last.get('ty'))
        if last['k'] in ('index', 'cindex'):
            ty = self.body.locals[pl['l']]['ty']
            m = re.search(r'\[([ui](?:8|16|32|64|size))(;.*)?\]', ty) or re.search(r'Vec<([ui](?:8|16|32|64|size))', ty)
            return ty_range(m.group(1)) if m else None
        if last['k'] == 'deref':
            ty = self.body.locals[pl['l']]['ty']
            m = re.match(r'^&(?:mut )?([ui](?:8|16|32|64|size)|bool)$', ty)
            return ty_range(m.group(1)) if m else None
        return None

    def field_key(self, pl):
        """(owner, name) if the place is a field of a struct reached through self/params (global field summary)"""
        p = pl['p']
        if p and p[-1]['k'] == 'field' and p[-1].get('owner') and not p[-1]['name'].isdigit():
            return (p[-1]['owner'], p[-1]['name'])
        if len(p) >= 3 and p[-1]['k'] == 'field' and p[-1]['name'] == '0' and p[-2]['k'] == 'downcast' and p[-3]['k'] == 'field' and p[-3].get('owner'):
            return (p[-3]['owner'], p[-3]['name'])
        return None

    def eval_place(self, st, pl):
        k = self.key_of_place(pl)
        if k is not None and k in st.iv:
            v = st.iv[k]
            if v[0] > v[1]:
                return self.place_range(pl) if k[0] != 'p' else self.prange(k[1])
            return v
        fk = self.field_key(pl)
        rng = self.place_range(pl)
        if rng is None and pl['p'] and pl['p'][-1]['k'] == 'field':
            rng = ty_range(payload_ty(pl['p'][-1].get('ty')))
        if fk is not None:
            self.field_reads.add(fk)
            iv = self.eng.field.get(fk)
            if iv is not None and rng is not None:
                return meet(iv, rng) if iv[0] <= rng[1] and iv[1] >= rng[0] else rng
        return rng

    def eval_op(self, st, op):
        if not isinstance(op, dict):
            return None
        if op.get('k') == 'const':
            v = op.get('val')
            if v is not None:
                return (v, v)
            return ty_range(op.get('ty'))
        if is_place_op(op):
            return self.eval_place(st, op['place'])
        return None

    def opkey(self, op):
        """descriptor used in relational facts: ('c', v) or a state key"""
        if not isinstance(op, dict):
            return None
        if op.get('k') == 'const' and op.get('val') is not None:
            return ('c', op['val'])
        if is_place_op(op):
            return self.key_of_place(op['place'])
        return None

    def canon(self, st, k):
        """follow value-preserving origins to a canonical key"""
        seen = 0
        while k is not None and k[0] == 'l' and k[1] in st.org and seen < 20:
            k = st.org[k[1]]
            seen += 1
        return k

    def kill(self, st, l):
        """local l is (re)assigned: forget everything that mentions it"""
        for k in [k for k in st.iv if k[0] in ('l', 'p', 't', 'pt', 'ptnone') and k[1] == l]:
            del st.iv[k]
        st.org.pop(l, None)
        st.cmp.pop(l, None)
        if st.mem:
            st.mem = {k for k in st.mem if not (k[0] in ('l', 'p', 't', 'pt') and k[1] == l)}
        if st.aff:
            st.aff = {k: v for k, v in st.aff.items() if not self._mentions(k, l) and not self._mentions(v[1], l)}
        for x in [x for x, v in st.org.items() if v[0] in ('l', 'cell') and l in v[1:]]:
            del st.org[x]
        if st.facts:
            st.facts = {f for f in st.facts if not self._mentions(f[0], l) and not self._mentions(f[2], l)}
        for x in [x for x, v in st.cmp.items() if self._mentions(v[1], l) or self._mentions(v[2], l)]:
            del st.cmp[x]
        for k in [k for k in st.iv if k[0] == 'cell' and l in k[2:]]:
            del st.iv[k]

    @staticmethod
    def _mentions(k, l):
        return k is not None and k[0] in ('l', 'p', 't', 'cell') and l in k[1:]

    def set_iv(self, st, k, iv):
        if iv is None:
            st.iv.pop(k, None)
        else:
            st.iv[k] = iv

    def refine(self, st, k, iv):
        """value with key k is known to lie in iv: refine it and everything it is a copy of"""
        seen = 0
        while k is not None and seen < 20:
            seen += 1
            if k[0] == 'c':
                return
            cur = st.iv.get(k)
            if cur is None and k[0] == 'l':
                cur = self.lrange(k[1])
            if cur is None and k[0] == 'p':
                cur = self.prange(k[1])
            if cur is not None and cur[0] > cur[1]:
                return      # empty payload: nothing to refine
            nw = meet(cur, iv) if cur is not None else iv
            if nw[0] > nw[1]:
                st.dead = True
                return
            st.iv[k] = nw
            a = st.aff.get(k)
            if a is not None and a[0] == 'mul' and nw[0] > 0 and nw[0] % a[2] != 0:
                # a positive multiple of c is at least c (and the next multiple of c above the bound)
                lo2 = ((nw[0] + a[2] - 1) // a[2]) * a[2]
                if lo2 <= nw[1]:
                    nw = (lo2, nw[1])
                    st.iv[k] = nw
            if a is not None:
                if a[0] == 'add':
                    self.refine(st, a[1], (nw[0] - a[2], nw[1] - a[2]))
                elif a[0] == 'and' and nw[0] > 0 and a[2] >= 0:
                    # (y & m) >= lo > 0  implies  y >= lowest set bit of m  (y unsigned)
                    low = a[2] & -a[2]
                    if low > 0:
                        self.refine(st, a[1], (low, 1 << 130))
            if k[0] == 'l' and k[1] in st.org:
                k = st.org[k[1]]
            else:
                return

    # ---------------------------------------------------------------- transfer
    def arith(self, op, a, b, rng):
        if a is None or b is None:
            return rng
        try:
            if op == 'Add':
                return (a[0] + b[0], a[1] + b[1])
            if op == 'Sub':
                return (a[0] - b[1], a[1] - b[0])
            if op == 'Mul':
                c = [a[0] * b[0], a[0] * b[1], a[1] * b[0], a[1] * b[1]]
                return (min(c), max(c))
            if op == 'BitAnd':
                if a[0] >= 0 and b[0] >= 0:
                    return (0, min(a[1], b[1]))
                return rng
            if op in ('BitOr', 'BitXor'):
                if a[0] >= 0 and b[0] >= 0:
                    hi = (1 << max(a[1].bit_length(), b[1].bit_length())) - 1
                    return (max(a[0], b[0]) if op == 'BitOr' else 0, hi)
                return rng
            if op == 'Shl':
                if b[0] == b[1] and 0 <= b[0] < 128 and a[0] >= 0:
                    return (a[0] << b[0], a[1] << b[0])
                return rng
            if op == 'Shr':
                if b[0] >= 0 and b[1] < 128 and a[0] >= 0:
                    return (a[0] >> b[1], a[1] >> b[0])
                return rng
            if op == 'Div':
                if b[0] > 0 and a[0] >= 0:
                    return (a[0] // b[1], a[1] // b[0])
                return rng
            if op == 'Rem':
                if b[0] > 0 and a[0] >= 0:
                    return (0, min(a[1], b[1] - 1))
                return rng
        except Exception:
            return rng
        return rng

    def assign(self, st, pl, rv, b, si):
        body = self.body
        k = rv['rv']
        dk = self.key_of_place(pl)
        # stores into struct fields (global field summary)
        fk = self.field_key(pl)
        if fk is not None and pl['p']:
            if k == 'use':
                iv = self.eval_op(st, rv['op'])
                if iv is None and is_place_op(rv['op']):
                    iv = st.iv.get(('p', rv['op']['place']['l'])) if not rv['op']['place']['p'] else None
                if iv is not None:
                    if iv[0] <= iv[1]:
                        self.field_stores.append((fk, iv))
                else:
                    rng = ty_range(pl['p'][-1].get('ty')) or ty_range(payload_ty(pl['p'][-1].get('ty')))
                    if rng:
                        self.field_stores.append((fk, rng))
            elif k == 'agg' and rv.get('variant') in ('Some', 'Ok') and rv['ops']:
                iv = self.eval_op(st, rv['ops'][0])
                if iv is not None:
                    self.field_stores.append((fk, iv))
            else:
                rng = ty_range(pl['p'][-1].get('ty')) or ty_range(payload_ty(pl['p'][-1].get('ty')))
                if rng:
                    self.field_stores.append((fk, rng))
            return
        if pl['p'] and dk is None:
            # write through a reference / into an aggregate: if it may alias a tracked local, forget that local
            if pl['p'][0]['k'] == 'deref':
                for tgt in self.ref_targets(pl['l']):
                    self.kill(st, tgt)
            else:
                self.kill(st, pl['l'])
            return
        l = pl['l']
        if not pl['p']:
            self.kill(st, l)
        rng = self.lrange(l) if not pl['p'] else None
        if k == 'use':
            op = rv['op']
            iv = self.eval_op(st, op)
            if not pl['p'] and rng is None and self.prange(l) is not None and iv is not None and is_place_op(op) and op['place']['p']:
                st.iv[('p', l)] = iv
            if dk is not None and iv is not None and (rng is not None or pl['p']):
                st.iv[dk] = iv
                if op.get('k') == 'const' and rng is not None and rng[1] >= (1 << 63) and 0 <= iv[0] <= 4096:
                    st.mem.add(dk)
            if not pl['p'] and is_place_op(op):
                sk = self.key_of_place(op['place'])
                if sk is not None and rng is not None:
                    st.org[l] = sk
                if sk is not None and sk in st.mem and dk is not None:
                    st.mem.add(dk)
                if sk is not None and sk in st.aff and dk is not None:
                    st.aff[dk] = st.aff[sk]
                # moving a vector keeps its length cell
                if not op['place']['p'] and rng is None:
                    lc = st.iv.get(('cell', 'len', op['place']['l']))
                    if lc is not None:
                        st.iv[('cell', 'len', l)] = lc
                # payload carrying values (Option/Result moves)
                if not op['place']['p']:
                    pv = st.iv.get(('p', op['place']['l']))
                    if pv is not None:
                        st.iv[('p', l)] = pv
                    for k_ in [k_ for k_ in st.iv if k_[0] in ('t', 'pt') and k_[1] == op['place']['l']]:
                        st.iv[(k_[0], l, k_[2])] = st.iv[k_]
                    if ('ptnone', op['place']['l']) in st.iv:
                        st.iv[('ptnone', l)] = EMPTY
                # a tuple taken out of a payload: `_t = move (x as Continue).0`
                pp = op['place']['p']
                if len(pp) == 2 and pp[0]['k'] == 'downcast' and pp[0]['variant'] in ('Some', 'Ok', 'Continue') and pp[1]['k'] == 'field' and pp[1]['name'] == '0':
                    for k_ in [k_ for k_ in st.iv if k_[0] == 'pt' and k_[1] == op['place']['l']]:
                        st.iv[('t', l, k_[2])] = st.iv[k_]
                if not op['place']['p'] and op['place']['l'] in st.cmp:
                    st.cmp[l] = st.cmp[op['place']['l']]
            return
        if k == 'cast':
            op = rv['op']
            iv = self.eval_op(st, op)
            trg = type_range(rv.get('int'))
            if rv['kind'] != 'IntToInt' or trg is None:
                return
            if iv is not None and iv[0] >= trg[0] and iv[1] <= trg[1]:
                st.iv[dk] = iv
                sk = self.opkey(op)
                if sk is not None and sk[0] != 'c' and not pl['p']:
                    st.org[l] = sk      # value preserving
                if sk is not None and sk in st.mem and trg[1] >= (1 << 63):
                    st.mem.add(dk)
            else:
                st.iv[dk] = trg
            return
        if k == 'bin':
            opn = rv['op']
            a, bb = self.eval_op(st, rv['l']), self.eval_op(st, rv['r'])
            if opn in ('Eq', 'Ne', 'Lt', 'Le', 'Gt', 'Ge'):
                if dk is not None:
                    st.iv[dk] = (0, 1)
                    if not pl['p']:
                        st.cmp[l] = (opn, self.opkey(rv['l']), self.opkey(rv['r']), False)
                    # decide statically when possible
                    if a is not None and bb is not None:
                        t = self.decide(opn, a, bb)
                        if t is not None:
                            st.iv[dk] = (int(t), int(t))
                return
            if opn.endswith('WithOverflow'):
                base = opn[:-len('WithOverflow')]
                irng = type_range(rv.get('int'))
                res = self.arith(base, a, bb, irng)
                if base == 'Sub' and res is not None:
                    lk, rk = self.opkey(rv['l']), self.opkey(rv['r'])
                    if self.known_le(st, rk, lk, strict=True):
                        res = (max(res[0], 1), max(res[1], 1))
                    elif self.known_le(st, rk, lk):
                        res = (max(res[0], 0), max(res[1], 0))
                # the .0 field holds the wrapped result; after the assert it is the exact result
                st.iv[('t', l, 0)] = res if res is not None else irng
                st.iv[('t', l, 1)] = (0, 1)
                if base in ('Add', 'Sub'):
                    lk, rc = self.opkey(rv['l']), op_const(rv['r'])
                    if lk is not None and lk[0] != 'c' and rc is not None:
                        st.aff[('t', l, 0)] = ('add', lk, rc if base == 'Add' else -rc)
                if base == 'Mul':
                    lk, rc = self.opkey(rv['l']), op_const(rv['r'])
                    if lk is not None and lk[0] != 'c' and rc is not None and rc > 0:
                        st.aff[('t', l, 0)] = ('mul', lk, rc)
                if base in ('Add', 'Mul') and irng is not None and irng[1] >= (1 << 63) and self.is_mem(st, rv['l'], small_ok=(base == 'Mul')) \
                        and self.is_mem(st, rv['r'], small_ok=True):
                    st.mem.add(('t', l, 0))
                if res is not None and irng is not None and res[0] >= irng[0] and res[1] <= irng[1]:
                    st.iv[('t', l, 1)] = (0, 0)
                return
            base = opn.replace('Unchecked', '')
            irng = type_range(rv.get('int')) if base not in ('Shl', 'Shr') else (rng or type_range(rv.get('int')))
            res = self.arith(base, a, bb, rng or irng)
            if dk is not None:
                st.iv[dk] = clip(res, rng or irng) if (rng or irng) else res
                if base == 'BitAnd' and not pl['p']:
                    lk, rc = self.opkey(rv['l']), None
                    rv_r = self.eval_op(st, rv['r'])
                    if rv_r is not None and rv_r[0] == rv_r[1]:
                        rc = rv_r[0]
                    if lk is not None and lk[0] != 'c' and rc is not None:
                        st.aff[dk] = ('and', lk, rc)
                if base == 'Rem' and bb is not None and bb[0] > 0 and a is not None and a[0] >= 0:
                    rk = self.opkey(rv['r'])
                    if rk is not None and rk[0] != 'c':
                        st.facts.add((dk, '<', self.canon(st, rk)))
            return
        if k == 'un':
            x = self.eval_op(st, rv['x'])
            if rv['op'] == 'Not' and not pl['p']:
                xl = op_local(rv['x'])
                if rng == (0, 1):
                    if xl is not None and xl in st.cmp:
                        c = st.cmp[xl]
                        st.cmp[l] = (c[0], c[1], c[2], not c[3])
                    st.iv[dk] = (1 - x[1], 1 - x[0]) if x is not None and x[1] <= 1 else (0, 1)
                elif rng is not None and x is not None and x[0] == x[1]:
                    v = (~x[0]) & rng[1]
                    st.iv[dk] = (v, v)
                elif rng is not None:
                    st.iv[dk] = rng
            elif rv['op'] == 'PtrMetadata' and dk is not None:
                st.iv[dk] = (0, LEN_MAX)
                st.mem.add(dk)
                xl = op_base(rv['x'])
                xb = self.base_of_ref(xl) if xl is not None and not rv['x']['place']['p'] else None
                if xb is not None:
                    ck = ('cell', 'len', xb)
                    st.iv[dk] = st.iv.get(ck, (0, LEN_MAX))
                    st.iv.setdefault(ck, st.iv[dk])
                    st.org[l] = ck
            elif dk is not None and rng is not None:
                st.iv[dk] = rng
            return
        if k == 'agg':
            if rv.get('kind') == 'adt' and rv.get('variant') in ('Some', 'Ok', 'Continue') and rv['ops'] and not pl['p']:
                iv = self.eval_op(st, rv['ops'][0])
                if iv is not None and self.prange(l) is not None:
                    st.iv[('p', l)] = iv
                o0 = rv['ops'][0]
                if is_place_op(o0) and not o0['place']['p']:
                    for k_ in [k_ for k_ in st.iv if k_[0] == 't' and k_[1] == o0['place']['l']]:
                        st.iv[('pt', l, k_[2])] = st.iv[k_]
            elif rv.get('kind') == 'adt' and rv.get('variant') in ('None', 'Err', 'Break') and not pl['p'] and self.prange(l) is not None:
                st.iv[('p', l)] = EMPTY
            elif rv.get('kind') == 'adt' and rv.get('variant') in ('None', 'Err', 'Break') and not pl['p']:
                st.iv[('ptnone', l)] = EMPTY
            elif rv.get('kind') == 'tuple' and not pl['p']:
                for i, o in enumerate(rv['ops']):
                    iv = self.eval_op(st, o)
                    if iv is not None:
                        st.iv[('t', l, i)] = iv
            elif rv.get('kind') == 'adt' and rv.get('fields'):
                # struct literal: field stores for the global field summary
                for fname, o in zip(rv['fields'], rv['ops']):
                    iv = self.eval_op(st, o)
                    if iv is None and is_place_op(o) and not o['place']['p']:
                        iv = st.iv.get(('p', o['place']['l']))
                    if iv is not None:
                        if iv[0] <= iv[1]:
                            self.field_stores.append(((rv['adt'], fname), iv))
                    else:
                        fr = self.adt_field_range(rv['adt'], fname)
                        if fr is not None:
                            self.field_stores.append(((rv['adt'], fname), fr))
            return
        if k == 'discr' and dk is not None and rng is not None:
            st.iv[dk] = rng
            src = rv['place']
            if not src['p'] and (('ptnone', src['l']) in st.iv or st.iv.get(('p', src['l'])) == EMPTY):
                # the value is None / Err / Break on every path reaching here (its payload is empty): the discriminant is known, so the
                # switch that follows does not send this state down the Some / Ok / Continue edge
                ty = rv.get('ty') or body.locals[src['l']]['ty']
                v = 0 if ty.startswith('std::option::Option') else 1
                if rng[0] <= v <= rng[1]:
                    st.iv[dk] = (v, v)
            return
        if k in ('ref', 'rawptr'):
            # a mutable borrow of a tracked local: its value may change through the reference
            if rv.get('mut') and not rv['place']['p']:
                pass    # handled at the use of the reference (calls / stores through it)
            return
        if dk is not None and rng is not None:
            st.iv[dk] = rng

    def is_mem(self, st, op, small_ok=False):
        """operand is the size of an in-memory object (or, if small_ok, a small constant)"""
        if isinstance(op, dict) and op.get('k') == 'const':
            v = op.get('val')
            return small_ok and v is not None and 0 <= v <= 4096
        k = self.opkey(op)
        if k is None:
            return False
        if k in st.mem:
            return True
        c = self.canon(st, k)
        if c in st.mem or (c is not None and c[0] == 'cell' and c[1] in ('len', 'mlen')):
            return True
        iv = st.iv.get(k)
        return small_ok and iv is not None and 0 <= iv[0] and iv[1] <= 65535

    def base_of_ref(self, l, depth=0):
        """the object a reference-typed local refers to: the borrowed local, or (for parameters / loaded references) the
        reference local itself"""
        if depth > 8:
            return l
        ds = self.body.defs.get(l, [])
        if len(ds) == 1 and ds[0][0] == 'stmt':
            rv = ds[0][3]['rv']
            if rv['rv'] in ('ref', 'rawptr'):
                pl = rv['place']
                if not pl['p']:
                    return pl['l']
                if len(pl['p']) == 1 and pl['p'][0]['k'] == 'deref':
                    return self.base_of_ref(pl['l'], depth + 1)
                return None
            if rv['rv'] in ('use', 'cast') and is_place_op(rv['op']) and not rv['op']['place']['p']:
                return self.base_of_ref(rv['op']['place']['l'], depth + 1)
            if rv['rv'] in ('use', 'cast') and is_place_op(rv['op']):
                return None
        if len(ds) == 1 and ds[0][0] == 'call':
            c = ds[0][2]
            if re.search(r'as std::ops::Deref(Mut)?>::deref(_mut)?$|Vec::<T, A>::as_slice$|as_mut_slice$|String::as_bytes$', c.callee) and c.args:
                a = c.args[0]
                if is_place_op(a) and not a['place']['p']:
                    return self.base_of_ref(a['place']['l'], depth + 1)
            return None
        if not ds and 1 <= l <= self.body.arg_count:
            return l
        return None

    def adt_field_range(self, adt, fname):
        a = self.P.adts.get(adt)
        if not a:
            return None
        for v in a['variants']:
            for f in v['fields']:
                if f['name'] == fname:
                    return ty_range(f['ty']) or ty_range(payload_ty(f['ty']))
        return None

    def ref_targets(self, ref_local, depth=0):
        """locals a reference local may point to (flow-insensitive)"""
        out = set()
        if depth > 6:
            return out
        for d in self.body.defs.get(ref_local, []):
            if d[0] == 'stmt':
                rv = d[3]['rv']
                if rv['rv'] in ('ref', 'rawptr'):
                    pl = rv['place']
                    if not pl['p'] or all(p['k'] != 'deref' for p in pl['p']):
                        out.add(pl['l'])
                    elif pl['p'][0]['k'] == 'deref':
                        out |= self.ref_targets(pl['l'], depth + 1)
                elif rv['rv'] in ('use', 'cast') and is_place_op(rv['op']):
                    out |= self.ref_targets(rv['op']['place']['l'], depth + 1)
        return out

    @staticmethod
    def decide(op, a, b):
        if op == 'Lt':
            return True if a[1] < b[0] else (False if a[0] >= b[1] else None)
        if op == 'Le':
            return True if a[1] <= b[0] else (False if a[0] > b[1] else None)
        if op == 'Gt':
            return True if a[0] > b[1] else (False if a[1] <= b[0] else None)
        if op == 'Ge':
            return True if a[0] >= b[1] else (False if a[1] < b[0] else None)
        if op == 'Eq':
            return True if a[0] == a[1] == b[0] == b[1] else (False if a[1] < b[0] or b[1] < a[0] else None)
        if op == 'Ne':
            return False if a[0] == a[1] == b[0] == b[1] else (True if a[1] < b[0] or b[1] < a[0] else None)
        return None

    def apply_cmp(self, st, c, truth):
        """refine st knowing comparison c = (op, ka, kb, negated) evaluates to `truth`"""
        op, ka, kb, neg = c
        if neg:
            truth = not truth
        if not truth:
            op = {'Lt': 'Ge', 'Le': 'Gt', 'Gt': 'Le', 'Ge': 'Lt', 'Eq': 'Ne', 'Ne': 'Eq'}[op]
        if ka is None or kb is None:
            return

        def ivof(k):
            if k[0] == 'c':
                return (k[1], k[1])
            v = st.iv.get(k)
            if v is None and k[0] == 'l':
                v = self.lrange(k[1])
            return v
        a, b = ivof(ka), ivof(kb)
        if a is None or b is None:
            return
        INF = 1 << 130
        if op == 'Lt':
            self.refine(st, ka, (-INF, b[1] - 1))
            self.refine(st, kb, (a[0] + 1, INF))
        elif op == 'Le':
            self.refine(st, ka, (-INF, b[1]))
            self.refine(st, kb, (a[0], INF))
        elif op == 'Gt':
            self.refine(st, ka, (b[0] + 1, INF))
            self.refine(st, kb, (-INF, a[1] - 1))
        elif op == 'Ge':
            self.refine(st, ka, (b[0], INF))
            self.refine(st, kb, (-INF, a[1]))
        elif op == 'Eq':
            self.refine(st, ka, b)
            self.refine(st, kb, a)
        elif op == 'Ne':
            if b[0] == b[1]:
                if a[0] == b[0]:
                    self.refine(st, ka, (a[0] + 1, INF))
                elif a[1] == b[0]:
                    self.refine(st, ka, (-INF, a[1] - 1))
            if a[0] == a[1]:
                if b[0] == a[0]:
                    self.refine(st, kb, (b[0] + 1, INF))
                elif b[1] == a[0]:
                    self.refine(st, kb, (-INF, b[1] - 1))
        # relational facts between canonical keys
        if ka[0] != 'c' and kb[0] != 'c':
            ca, cb = self.canon(st, ka), self.canon(st, kb)
            if op == 'Lt':
                st.facts.add((ca, '<', cb))
            elif op == 'Le':
                st.facts.add((ca, '<=', cb))
            elif op == 'Gt':
                st.facts.add((cb, '<', ca))
            elif op == 'Ge':
                st.facts.add((cb, '<=', ca))
            elif op == 'Eq':
                st.facts.add((ca, '<=', cb))
                st.facts.add((cb, '<=', ca))

    def known_le(self, st, ka, kb, strict=False):
        """is value(ka) <= value(kb) (or <) implied by intervals or recorded facts?"""
        if ka is None or kb is None:
            return False
        ca = self.canon(st, ka) if ka[0] != 'c' else ka
        cb = self.canon(st, kb) if kb[0] != 'c' else kb
        if ca == cb and not strict:
            return True
        for (x, op, y) in st.facts:
            if x == ca and y == cb and (op == '<' or not strict):
                return True
        # one step of transitivity: a R1 m, m R2 b
        for (x, op1, m) in st.facts:
            if x != ca:
                continue
            for (m2, op2, y) in st.facts:
                if m2 == m and y == cb and (not strict or op1 == '<' or op2 == '<'):
                    return True
        return False

    # ---------------------------------------------------------------- calls
    def callee_key(self, c):
        if c.callee in self.P.bodies and not c.virtual:
            return c.callee
        k = self.body.crate + '::' + c.callee
        if k in self.P.bodies and not c.virtual:
            return k
        return None

    def do_call(self, st, c, b):
        body = self.body
        dest = c.dest
        dl = dest['l'] if not dest['p'] else None
        args = c.args
        argiv = [self.eval_op(st, a) for a in args]
        name = c.callee
        ck = self.callee_key(c)
        # record argument intervals for the callee's parameter join
        if ck is not None:
            d = {}
            cb = self.P.bodies[ck]
            for i, a in enumerate(args):
                pi = i + 1
                if pi < len(cb.locals):
                    prng = type_range(cb.locals[pi].get('int'))
                    if prng is not None:
                        d[pi] = argiv[i] if argiv[i] is not None else prng
                    else:
                        pprng = ty_range(payload_ty(cb.locals[pi]['ty']))
                        if pprng is not None:
                            pv = None
                            if is_place_op(a) and not a['place']['p']:
                                pv = st.iv.get(('p', a['place']['l']))
                            d[pi] = pv if pv is not None else pprng
            self.call_args.append((ck, d))
        # mutable borrows handed to the callee: the pointees may change
        for a in args:
            if is_place_op(a) and not a['place']['p']:
                al = a['place']['l']
                ty = body.locals[al]['ty']
                if ty.startswith('&mut ') or ty.startswith('*mut '):
                    saved_len = None
                    bo = self.base_of_ref(al)
                    if bo is not None and re.search(r'Vec::<T, A>::push$', name):
                        old = st.iv.get(('cell', 'len', bo))
                        saved_len = (old[0] + 1, old[1] + 1) if old is not None else (1, LEN_MAX)
                    if bo is not None and re.search(r'Vec::<T, A>::resize$', name) and len(args) >= 2:
                        saved_len = self.eval_op(st, args[1])
                    if bo is not None and saved_len is None and ck is not None and self.eng.len_preserving(ck):
                        saved_len = st.iv.get(('cell', 'len', bo))
                    if bo is not None and saved_len is None and re.search(
                            r'IndexMut<.*>>::index_mut$|IndexMut<I> for \[T\]>::index_mut$|DerefMut>::deref_mut$|::as_mut_slice$|::iter_mut$|'
                            r'::copy_from_slice$|::swap$|::fill$|Rc4::process$|::as_mut_ptr$', name):
                        saved_len = st.iv.get(('cell', 'len', bo))
                    for tgt in self.ref_targets(al):
                        self.kill(st, tgt)
                    if bo is not None:
                        self.kill(st, bo)
                        if saved_len is not None:
                            st.iv[('cell', 'len', bo)] = saved_len
        if dl is not None:
            self.kill(st, dl)
        rng = self.lrange(dl) if dl is not None else None
        prng = self.prange(dl) if dl is not None else None
        res = None
        pres = None
        carry_pt = []
        # ---- models of library functions -------------------------------------------------------------------
        if (name in PURE_GETTERS or PURE_GETTER_RX.match(name)) and args:
            base = self.getter_base(args[0])
            kind = PURE_GETTERS.get(name, 'mlen')
            if dl is not None and kind in ('len', 'mlen'):
                st.mem.add(('l', dl))
            if base is not None and dl is not None:
                cell = ('cell', kind, base)
                default = (0, LEN_MAX) if kind in ('len', 'mlen') else rng
                res = st.iv.get(cell, default)
                if rng is not None and res is not None:
                    res = meet(res, rng) if res[0] <= rng[1] and res[1] >= rng[0] else rng
                st.iv[('l', dl)] = res
                st.iv.setdefault(cell, res)
                st.org[dl] = cell
                return
            if kind in ('len', 'mlen'):
                res = (0, LEN_MAX)
        elif name.endswith('from_residual') and prng is not None:
            pres = EMPTY
        elif re.search(r'::saturating_sub$', name) and len(argiv) == 2 and argiv[0] and argiv[1]:
            res = (max(0, argiv[0][0] - argiv[1][1]), max(0, argiv[0][1] - argiv[1][0]))
        elif re.search(r'::wrapping_(add|sub|mul)$', name):
            res = rng
        elif re.search(r'::checked_(add|sub|mul)$', name) and len(argiv) == 2 and argiv[0] and argiv[1] and prng:
            opn = {'add': 'Add', 'sub': 'Sub', 'mul': 'Mul'}[name.rsplit('_', 1)[1]]
            r = self.arith(opn, argiv[0], argiv[1], prng)
            pres = meet(r, prng) if r and r[0] <= prng[1] and r[1] >= prng[0] else prng
        elif re.search(r'Option::<T>::(ok_or|ok_or_else)$|Result::<T, E>::(map_err|ok)$|as std::ops::Try>::branch$|Option::<T>::(as_ref|copied|cloned)$', name) and args:
            a0 = args[0]
            if is_place_op(a0) and not a0['place']['p']:
                pres = st.iv.get(('p', a0['place']['l']))
                if ('p', a0['place']['l']) in st.mem and dl is not None:
                    st.mem.add(('p', dl))
                if dl is not None:
                    carry_pt = [(k_[2], st.iv[k_]) for k_ in st.iv if k_[0] == 'pt' and k_[1] == a0['place']['l']]
                    if ('ptnone', a0['place']['l']) in st.iv:
                        st.iv[('ptnone', dl)] = EMPTY
        elif re.search(r'^std::io::Read::read$|^model::link::Stream::<S>::read$', name) and dl is not None:
            pres = (0, LEN_MAX)
            st.mem.add(('p', dl))
        elif re.search(r'(Option::<T>|Result::<T, E>)::(unwrap|expect)$', name) and args:
            a0 = args[0]
            if is_place_op(a0) and not a0['place']['p']:
                res = st.iv.get(('p', a0['place']['l']))
            elif is_place_op(a0):
                res = self.eval_place(st, a0['place'])
        elif re.search(r'Option::<T>::unwrap_or$', name) and len(args) == 2:
            a0 = args[0]
            pv = st.iv.get(('p', a0['place']['l'])) if is_place_op(a0) and not a0['place']['p'] else None
            if pv is None and is_place_op(a0):
                pv = self.eval_place(st, a0['place'])
                fk = self.field_key(a0['place'])
                if fk is not None:
                    pv = self.eng.field.get(fk, pv)
            dv = argiv[1]
            res = join(pv, dv) if pv is not None and dv is not None else None
        elif re.search(r'std::cmp::(min|max)$|Ord>::(min|max)$', name) and len(argiv) == 2 and argiv[0] and argiv[1]:
            if name.endswith('min'):
                res = (min(argiv[0][0], argiv[1][0]), min(argiv[0][1], argiv[1][1]))
            else:
                res = (max(argiv[0][0], argiv[1][0]), max(argiv[0][1], argiv[1][1]))
        elif is_range_next(name):
            # for i in a..b : Some(i) with a <= i < b
            pres = self.range_iter_payload(st, args[0])
        elif name == 'std::io::Cursor::<T>::position':
            res = (0, LEN_MAX)
            if dl is not None:
                st.mem.add(('l', dl))
        elif re.search(r'IntoIterator>::into_iter$', name) and args and is_place_op(args[0]) and not args[0]['place']['p'] and dl is not None:
            s_ = args[0]['place']['l']
            for i in (0, 1):
                if ('rng', s_, i) in st.iv:
                    st.iv[('rng', dl, i)] = st.iv[('rng', s_, i)]
            if ('rnghi', s_) in st.org:
                st.org[('rnghi', dl)] = st.org[('rnghi', s_)]
        elif ck is not None:
            r = self.eng.ret.get(ck)
            cs = self.eng.ret_for_consts(ck, args, argiv, self)
            if cs is not None:
                r = cs if r is None else (meet(r, cs) if r[0] <= cs[1] and r[1] >= cs[0] else cs)
            if r is not None:
                if rng is not None:
                    res = r
                elif prng is not None:
                    pres = r
        if dl is not None:
            if rng is not None:
                res = res if res is not None else rng
                if res[0] < rng[0] or res[1] > rng[1]:
                    res = meet(res, rng) if res[0] <= rng[1] and res[1] >= rng[0] else rng
                st.iv[('l', dl)] = res
            if prng is not None:
                pres = pres if pres is not None else prng
                if pres != EMPTY and (pres[0] < prng[0] or pres[1] > prng[1]):
                    pres = meet(pres, prng) if pres[0] <= prng[1] and pres[1] >= prng[0] else prng
                st.iv[('p', dl)] = pres
        for i_, iv_ in carry_pt:
            st.iv[('pt', dl, i_)] = iv_
        # a vector created with a known length
        if dl is not None and name == 'std::vec::from_elem' and len(argiv) == 2:
            n = argiv[1] if argiv[1] is not None else (0, LEN_MAX)
            st.iv[('cell', 'len', dl)] = n
            nk = self.opkey(args[1])
            if nk is not None and nk[0] != 'c':
                st.facts.add((('cell', 'len', dl), '<=', self.canon(st, nk)))
                st.facts.add((self.canon(st, nk), '<=', ('cell', 'len', dl)))
        if dl is not None and re.search(r'Vec::<T>::new$|Vec::<T, A>::new$', name):
            st.iv[('cell', 'len', dl)] = (0, 0)

    def range_iter_payload(self, st, arg):
        """payload interval of Range<int>::next(&mut iter): needs the range bounds stored in the iterator local"""
        for tgt in self.ref_targets(op_base(arg)) if op_base(arg) is not None else []:
            lo = st.iv.get(('rng', tgt, 0))
            hi = st.iv.get(('rng', tgt, 1))
            if lo is not None and hi is not None:
                if hi[1] - 1 < lo[0]:
                    return None
                return (lo[0], hi[1] - 1)
        return None

    def getter_base(self, arg):
        """local whose (unmodified) value a `&x` argument refers to, else None"""
        l = op_base(arg)
        if l is None or (is_place_op(arg) and arg['place']['p']):
            return None
        return self.base_of_ref(l)

    # ---------------------------------------------------------------- sites
    def add_site(self, b, kind, desc, sig, verdict, rule, detail='', ops=None):
        key = (b, kind, sig)
        s = self.site_index.get(key)
        if s is None:
            s = Site(self.body, b, kind, desc, sig, ops)
            self.site_index[key] = s
            self.sites.append(s)
            s.verdict, s.rule, s.detail = verdict, rule, detail
        else:
            # a site visited again in the fixpoint: it stays discharged only if discharged in every visit
            if verdict != 'discharged' and s.verdict == 'discharged':
                s.verdict, s.rule, s.detail = verdict, rule, detail
            elif verdict != 'discharged':
                s.detail = detail
        return s

    def check_assert(self, st, b, t):
        m = t['msg']
        k = m.get('k')
        if k == 'overflow':
            op = m['op']
            a, bb = self.eval_op(st, m['l']), self.eval_op(st, m['r'])
            rng = type_range(m.get('int'))
            desc = 'Overflow(%s, %s, %s)' % (op, self.fmt(m['l']), self.fmt(m['r']))
            sig = 'Overflow(%s,%s,%s)' % (op, self.sigop(m['l']), self.sigop(m['r']))
            if op in ('Shl', 'Shr'):
                bits = rng[1].bit_length() if rng else 64
                ok = bb is not None and 0 <= bb[0] and bb[1] < bits
                self.add_site(b, 'overflow', desc, sig, 'discharged' if ok else 'open', 'D-range' if ok else None,
                              'shift amount %s' % (bb,), [m['l'], m['r']])
                return
            res = self.arith(op, a, bb, None)
            ok = res is not None and rng is not None and res[0] >= rng[0] and res[1] <= rng[1]
            rule = 'D-const' if (a and bb and a[0] == a[1] and bb[0] == bb[1]) else 'D-range'
            if not ok and op in ('Add', 'Mul') and rng is not None and rng[1] >= (1 << 63) and self.is_mem(st, m['l'], small_ok=(op == 'Mul')) \
                    and self.is_mem(st, m['r'], small_ok=True):
                ok, rule = True, 'D-mem'
            if not ok and op == 'Sub' and rng is not None and rng[0] == 0:
                # a - b with b <= a known relationally
                if self.known_le(st, self.opkey(m['r']), self.opkey(m['l'])):
                    ok, rule = True, 'D-guard'
            self.add_site(b, 'overflow', desc, sig, 'discharged' if ok else 'open', rule if ok else None,
                          '%s %s %s -> %s not within %s' % (a, op, bb, res, rng), [m['l'], m['r']])
        elif k == 'bounds':
            ln, ix = self.eval_op(st, m['len']), self.eval_op(st, m['index'])
            desc = 'BoundsCheck(len=%s, index=%s)' % (self.fmt(m['len']), self.fmt(m['index']))
            sig = 'Bounds(%s)' % self.sigop(m['index'])
            ok = ln is not None and ix is not None and ix[1] < ln[0] and ix[0] >= 0
            rule = 'D-range'
            if not ok and self.known_le(st, self.opkey(m['index']), self.opkey(m['len']), strict=True):
                ok, rule = True, 'D-guard'
            self.add_site(b, 'bounds', desc, sig, 'discharged' if ok else 'open', rule if ok else None, 'index %s, len %s' % (ix, ln), [m['index'], m['len']])
        elif k in ('div0', 'rem0'):
            # the assert message carries the dividend; the divisor is the operand compared with 0 in the condition
            x = None
            cl = op_local(t['cond'])
            c = st.cmp.get(cl) if cl is not None else None
            if c is not None and c[0] == 'Eq' and c[2] == ('c', 0) and c[1] is not None:
                x = st.iv.get(c[1]) if c[1][0] != 'c' else (c[1][1], c[1][1])
                if x is None and c[1][0] == 'l':
                    x = self.lrange(c[1][1])
            ok = x is not None and (x[0] > 0 or x[1] < 0)
            self.add_site(b, k, '%s(%s)' % (k, self.fmt(m['x'])), '%s(%s)' % (k, self.sigop(m['x'])), 'discharged' if ok else 'open', 'D-range' if ok else None,
                          'divisor %s' % (x,), [m['x']])
        elif k == 'overflow_neg':
            self.add_site(b, 'overflow', 'OverflowNeg', 'OverflowNeg', 'open', None, '', [m['x']])
        # other assert kinds (misaligned pointer / null deref debug checks inserted by rustc) are not value-dependent panics of the program

    def sigop(self, op):
        """operand signature without local numbers for constants, with the debug name for named locals"""
        if isinstance(op, dict) and op.get('k') == 'const':
            return 'const %s' % op.get('val', op.get('s'))
        l = op_base(op)
        if l is not None:
            n = self.body.locals[l].get('name')
            return n if n else '_'
        return '?'

    def fmt(self, op):
        from facts import fmt_op
        return fmt_op(op, self.body)

    # ---------------------------------------------------------------- fixpoint
    def run(self):
        body = self.body
        st0 = State()
        pj = self.eng.param.get(self.key, {})
        called = self.key in self.eng.has_caller
        for i in range(1, body.arg_count + 1):
            rng = self.lrange(i)
            if rng is not None:
                iv = pj.get(i) if called else None
                if self.param_override and i in self.param_override:
                    iv = self.param_override[i]
                st0.iv[('l', i)] = meet(iv, rng) if iv is not None and iv[0] <= rng[1] and iv[1] >= rng[0] else rng
            prng = self.prange(i)
            if prng is not None:
                iv = pj.get(i) if called else None
                st0.iv[('p', i)] = iv if iv is not None else prng
        self.in_states = {0: st0}
        work = deque([0])
        inw = {0}
        while work:
            b = work.popleft()
            inw.discard(b)
            self.visits[b] += 1
            if self.visits[b] > 60:
                continue
            st = self.in_states[b].copy()
            if st.dead:
                continue
            outs = self.transfer_block(st, b)
            for tgt, so in outs:
                if so.dead:
                    continue
                if tgt not in self.in_states:
                    self.in_states[tgt] = so.copy()
                    ch = True
                else:
                    ch = self.in_states[tgt].join_with(so, widen=self.visits[tgt] > 4, ranges=self.key_range)
                if ch and tgt not in inw:
                    work.append(tgt)
                    inw.add(tgt)
        return self

    def state_at_term(self, b):
        """abstract state just before the terminator of block b (entry state + the block's statements)"""
        st0 = self.in_states.get(b)
        if st0 is None:
            return None
        st = st0.copy()
        if st.dead:
            return st
        saved_sites, saved_calls, saved_fs = self.sites, self.call_args, self.field_stores
        self.sites, self.call_args, self.field_stores = [], [], []
        try:
            for si, stt in enumerate(self.body.blocks[b]['stmts']):
                if stt['s'] == 'assign':
                    self.assign(st, stt['place'], stt['rv'], b, si)
        finally:
            self.sites, self.call_args, self.field_stores = saved_sites, saved_calls, saved_fs
        return st

    def transfer_block(self, st, b):
        body = self.body
        bl = body.blocks[b]
        for si, stt in enumerate(bl['stmts']):
            if stt['s'] == 'assign':
                self.assign(st, stt['place'], stt['rv'], b, si)
                # range iterator construction: Range { start, end }
                rv = stt['rv']
                if rv['rv'] == 'agg' and rv.get('adt') == 'std::ops::Range' and not stt['place']['p'] and len(rv['ops']) == 2:
                    lo, hi = self.eval_op(st, rv['ops'][0]), self.eval_op(st, rv['ops'][1])
                    if lo is not None and hi is not None:
                        st.iv[('rng', stt['place']['l'], 0)] = lo
                        st.iv[('rng', stt['place']['l'], 1)] = hi
                        hk = self.opkey(rv['ops'][1])
                        if hk is not None and hk[0] != 'c':
                            st.org[('rnghi', stt['place']['l'])] = self.canon(st, hk)
                if rv['rv'] == 'use' and is_place_op(rv['op']) and not rv['op']['place']['p'] and not stt['place']['p']:
                    s_, d_ = rv['op']['place']['l'], stt['place']['l']
                    for i in (0, 1):
                        if ('rng', s_, i) in st.iv:
                            st.iv[('rng', d_, i)] = st.iv[('rng', s_, i)]
                    if ('rnghi', s_) in st.org:
                        st.org[('rnghi', d_)] = st.org[('rnghi', s_)]
            elif stt['s'] == 'setdiscr':
                self.kill(st, stt['place']['l'])
        t = bl['term']
        k = t['t']
        outs = []
        if k == 'goto':
            outs.append((t['target'], st))
        elif k == 'return':
            # return value interval
            rng = self.lrange(0)
            if rng is not None:
                self.ret_iv = join(self.ret_iv, st.iv.get(('l', 0), rng)) if self.ret_iv is not None else st.iv.get(('l', 0), rng)
            else:
                prng = self.prange(0)
                if prng is not None:
                    pv = st.iv.get(('p', 0), prng)
                    self.ret_iv = join(self.ret_iv, pv) if self.ret_iv is not None else pv
                    if self.ret_iv == EMPTY:
                        self.ret_iv = None if pv == EMPTY else self.ret_iv
        elif k == 'switch':
            d = t['discr']
            dl = op_local(d)
            div = self.eval_op(st, d)
            cmpc = st.cmp.get(dl) if dl is not None else None
            is_bool = t.get('discr_ty') == 'bool'
            targets = list(zip(t['vals'], t['targets']))
            for v, tg in targets:
                if div is not None and (v < div[0] or v > div[1]):
                    continue
                so = st.copy()
                if dl is not None:
                    self.refine(so, ('l', dl), (v, v))
                if cmpc is not None and is_bool:
                    self.apply_cmp(so, cmpc, bool(v))
                outs.append((tg, so))
            # otherwise edge
            so = st.copy()
            feasible = True
            if div is not None:
                vals = set(t['vals'])
                if div[1] - div[0] < 64 and all(x in vals for x in range(div[0], div[1] + 1)):
                    feasible = False
            if feasible:
                if is_bool and cmpc is not None:
                    rest = [x for x in (0, 1) if x not in t['vals']]
                    if len(rest) == 1:
                        self.apply_cmp(so, cmpc, bool(rest[0]))
                        if dl is not None:
                            self.refine(so, ('l', dl), (rest[0], rest[0]))
                elif dl is not None and div is not None and len(t['vals']) == 1:
                    v = t['vals'][0]
                    if v == div[0]:
                        self.refine(so, ('l', dl), (v + 1, div[1]))
                    elif v == div[1]:
                        self.refine(so, ('l', dl), (div[0], v - 1))
                outs.append((t['otherwise'], so))
        elif k == 'assert':
            self.check_assert(st, b, t)
            so = st
            # after the assert the condition holds
            m = t['msg']
            if m.get('k') == 'overflow' and m['op'] not in ('Shl', 'Shr'):
                cl = op_base(t['cond'])
                if cl is not None:
                    rng = type_range(m.get('int'))
                    cur = so.iv.get(('t', cl, 0))
                    if cur is not None and rng is not None:
                        nw = meet(cur, rng)
                        so.iv[('t', cl, 0)] = nw if nw[0] <= nw[1] else rng
                    so.iv[('t', cl, 1)] = (0, 0)
            elif m.get('k') == 'bounds':
                ik, lk = self.opkey(m['index']), self.opkey(m['len'])
                if ik is not None and lk is not None and ik[0] != 'c' and lk[0] != 'c':
                    so.facts.add((self.canon(so, ik), '<', self.canon(so, lk)))
            outs.append((t['target'], so))
        elif k == 'call':
            c = body.call_at(b)
            self.do_call(st, c, b)
            # Range::next : relate payload to the upper bound
            if is_range_next(c.callee) and not c.dest['p']:
                for tgt in self.ref_targets(op_base(c.args[0])) if op_base(c.args[0]) is not None else []:
                    hk = st.org.get(('rnghi', tgt))
                    if hk is not None:
                        st.facts.add((('p', c.dest['l']), '<', hk))
            if 'target' in t:
                outs.append((t['target'], st))
        elif k == 'drop':
            outs.append((t['target'], st))
        return outs


def is_range_next(name):
    return (name.endswith('Iterator>::next') and 'std::ops::Range<' in name) or \
        re.match(r'^std::iter::range::<impl std::iter::Iterator for std::ops::Range<A>>::next$', name) is not None


def op_base(op):
    if is_place_op(op):
        return op['place']['l']
    return None
