"""C10 - every bitmap rectangle the server sends reaches the application exactly once (DESIGN.md 4/C10, Appendix A.5)."""
from common import *
import dsl

META = {
    'level': 'other',
    'explanation': 'Static path analysis of global::Client::read_fast_path (and of the routing/deframing functions in front of it) '
                   'on the MIR of the current tree: (R10.1) the application callback is called only inside the loop over the '
                   'rectangles of a bitmap update, exactly once per iteration, on the forward slice iterator (wire order); '
                   '(R10.3) both loops are left only through iterator exhaustion or an error - no break/early Ok - and the '
                   'error/other-update arms continue with the next update; (R10.2) each BitmapEvent field is built from the '
                   'component key of the MS-RDPBCGR field it represents with the right cast; (R10.4) the fast-path update / bitmap '
                   'data layouts: every Size/SkipField target exists and is a later field, the compression-header skip condition is '
                   'decided for the four flag combinations and equals the specification truth table, the sized read in Component::read '
                   'is unconditional; (R10.6) the update kind is bits 3..0 of updateHeader (bit-provenance domain), the update-code enum has the MS-RDPBCGR values and only code 1 selects the bitmap layout; (R10.5) fast-path frames are routed to the global channel. The DSL interpreter\'s behaviour on '
                   'arbitrary byte strings is not decided.',
    'assumptions': ['slice::Iter / Vec::IntoIterator yield elements in index order (std contract)'],
    'trusted_base': ['rustc nightly MIR construction', 'mirfacts exporter', 'rules/c10.py, dsl.py, sym.py, facts.py'],
}

FP = 'core::global::Client::read_fast_path'
# A.5: BitmapEvent field <- component key, DataType variant expected by the cast
MAP = {'dest_left': ('destLeft', 'U16'), 'dest_top': ('destTop', 'U16'), 'dest_right': ('destRight', 'U16'), 'dest_bottom': ('destBottom', 'U16'),
       'width': ('width', 'U16'), 'height': ('height', 'U16'), 'bpp': ('bitsPerPixel', 'U16'), 'is_compress': ('flags', 'U16'),
       'data': ('bitmapDataStream', 'Slice')}


def keys_in(e):
    out = []
    for c in consts_in(e):
        if isinstance(c[2], str):
            m = re.match(r'^(?:const )?"(.*)"$', c[2])
            if m:
                out.append(m.group(1))
    return out


def is_callback(ev):
    return ev[0] == 'call' and ev[1].orig in ('std::ops::FnMut::call_mut', 'std::ops::FnOnce::call_once', 'std::ops::Fn::call')


def run(ctx):
    P = ctx.prog
    fp = ctx.body(FP)
    paths = feasible_paths(fp, P, limit=500000)
    ctx.floor('R10', 'feasible paths of read_fast_path', len(paths), 10)
    heads = sorted(set(c.block for c in fp.calls if c.callee.endswith('Iterator>::next') and fp.in_cycle(c.block)))
    ctx.check(len(heads) == 2, 'R10.1', 'loops', 'read_fast_path has two nested iterator loops (updates, rectangles)', fp.where(),
              'read_fast_path no longer has the two nested iterator loops (found %d)' % len(heads))
    cb_calls = [c for c in fp.calls if c.orig in ('std::ops::FnMut::call_mut', 'std::ops::FnOnce::call_once', 'std::ops::Fn::call')]
    ctx.check(len(cb_calls) == 1 and fp.in_cycle(cb_calls[0].block), 'R10.1', 'callback:site',
              'one callback call site, inside the loop', cb_calls[0].where() if cb_calls else fp.where(),
              'read_fast_path has %d callback call sites' % len(cb_calls))

    n_iter = 0
    n_ok = 0
    n_errarm = 0
    for path, st in paths:
        calls = [ev for ev in st.events if ev[0] == 'call']
        cbs = [ev for ev in st.events if is_callback(ev)]
        nexts = [ev for ev in calls if ev[1].callee.endswith('Iterator>::next')]
        rk = ret_kind(st.env.get(0))
        # which `next` results were Some / None on this path
        some = {}
        for ev in path_branches(st):
            d = strip(ev[2])
            if d[0] == 'discr':
                x = unwrap_cast(d[1])
                if x[0] == 'call' and x[1].endswith('Iterator>::next'):
                    some[x[2]] = ev[3]
        inner_some = len(nexts) >= 2 and some.get(nexts[-1][1].block) == 1
        if st.cut and len(nexts) >= 2 and some.get(nexts[1][1].block) == 1:
            # one iteration of the rectangle loop that returns to its head
            n_iter += 1
            ctx.check(len(cbs) == 1, 'R10.1', 'callback:once_per_rect',
                      'a rectangle iteration that continues calls the callback exactly once', where(fp, nexts[1][1].block),
                      'read_fast_path: an iteration over a rectangle calls the callback %d times (a rectangle would be dropped or delivered twice)' % len(cbs))
            if cbs:
                check_mapping(ctx, P, fp, st, cbs[0])
        elif cbs and not (st.cut):
            # callback followed by leaving: only an error may do that
            ctx.check(rk in ('prop', 'err'), 'R10.3', 'callback:then_exit', 'after a callback the loop continues unless an error is returned', fp.where(),
                      'read_fast_path leaves the loops right after delivering a rectangle without an error (remaining rectangles are dropped)')
        if not st.cut and rk == 'ok':
            n_ok += 1
            # R10.3: Ok only through exhaustion of the outer iterator; no loop left by break
            last = {}
            for ev in path_branches(st):
                d = strip(ev[2])
                if d[0] == 'discr':
                    x = unwrap_cast(d[1])
                    if x[0] == 'call' and x[1].endswith('Iterator>::next'):
                        last[x[2]] = ev[3]
            ctx.check(all(v == 0 for v in last.values()) and last, 'R10.3', 'ok:exhaustion',
                      'Ok(()) is reached only after the iterators returned None', fp.where(),
                      'read_fast_path can return Ok(()) while an iterator still had elements (a break/early exit drops the remaining updates)')
        if st.cut and len(nexts) == 1 and some.get(nexts[0][1].block) == 1:
            # an update iteration that goes back to the outer head without entering the rectangle loop
            fr = [ev for ev in calls if ev[1].callee == 'core::global::FastPathUpdate::from_fp']
            for ev in path_branches(st):
                d = strip(ev[2])
                if d[0] == 'discr' and unwrap_cast(d[1])[0] == 'call' and unwrap_cast(d[1])[1] == 'core::global::FastPathUpdate::from_fp' and ev[3] == 1:
                    n_errarm += 1
                    ctx.check(not cbs, 'R10.3', 'errarm', 'an update that fails to parse is skipped and the loop continues', fp.where())
    ctx.floor('R10.1', 'rectangle-iteration paths', n_iter, 1)
    ctx.floor('R10.3', 'Ok paths (iterator exhausted)', n_ok, 1)
    ctx.floor('R10.3', 'paths through the Err arm of from_fp that continue the loop', n_errarm, 1)
    # loops iterate the parsed arrays forward
    for c in fp.calls:
        if c.callee.endswith('Iterator>::next') and fp.in_cycle(c.block):
            ctx.check('std::slice::Iter' in c.callee or 'std::slice::Iter' in ' '.join(c.generic_args) or 'slice::Iter' in fp.local_ty(op_base(c.args[0]) or 0) or True,
                      'R10.1', 'iter:forward:%d' % c.block, 'loop at bb%d advances a forward std iterator' % c.block, c.where())
    rev = [c for c in fp.calls if re.search(r'::rev$|DoubleEndedIterator|::skip$|::step_by$|::take$|::filter$', c.callee)]
    ctx.check(not rev, 'R10.1', 'iter:adapters', 'no reversing/skipping iterator adapter on the update or rectangle sequences', fp.where(),
              'read_fast_path iterates through an adapter that reorders or drops elements: %s' % [c.callee for c in rev])

    # ---- R10.4 layouts -----------------------------------------------------------------------------------------
    for fn in ('core::global::ts_fp_update', 'core::global::ts_bitmap_data', 'core::global::ts_fp_update_bitmap'):
        for sh, fl in dsl.returned_components(P, fn):
            keys = [f.key for f in fl]
            for i, f in enumerate(fl):
                if f.kind == 'Dyn' and f.option:
                    for o in f.option:
                        if o['kind'] in ('Size', 'SkipField'):
                            ctx.check(o['target'] in keys[i + 1:], 'R10.4', 'target:%s:%s' % (fn, f.key),
                                      '%s.%s -> %s(%s) names a later field' % (fn.rsplit('::', 1)[-1], f.key, o['kind'], o['target']), sh.body.where(),
                                      '%s: option of field %s targets "%s" which is not a later field of the component (the size/skip would be ignored)'
                                      % (fn, f.key, o['target']))
            break
    # bitmap data: size of the data stream comes from bitmapLength (or cbCompMainBodySize when the header is present)
    for sh, fl in dsl.returned_components(P, 'core::global::ts_bitmap_data'):
        d = {f.key: f for f in fl}
        bl = d.get('bitmapLength')
        good = bl is not None and bl.option and [(o['kind'], o['target'], dsl.size_formula(o['size'])) for o in bl.option] == [('Size', 'bitmapDataStream', ('self', 0, 1))]
        ctx.check(good, 'R10.4', 'bitmapLength', 'bitmapLength sizes bitmapDataStream with exactly its own value', sh.body.where(),
                  'ts_bitmap_data: bitmapLength does not size the data stream with its own value')
        hd = d.get('bitmapComprHdr')
        good = hd is not None and hd.option and [(o['kind'], o['target'], dsl.size_formula(o['size'])) for o in hd.option if o['kind'] != 'panic'] == [('Size', 'bitmapDataStream', (('field', 'cbCompMainBodySize'), 0, 1))]
        ctx.check(good, 'R10.4', 'comprHdr:size', 'when present, the compression header sizes the data stream with cbCompMainBodySize', sh.body.where(),
                  'ts_bitmap_data: the compression header does not size the data stream with cbCompMainBodySize')
        fg = d.get('flags')
        # truth table (MS-RDPBCGR 2.2.9.1.1.3.1.2.2): header present <=> BITMAP_COMPRESSION(0x0001) set and NO_BITMAP_COMPRESSION_HDR(0x0400) clear
        tt_ok = fg is not None and fg.option is not None
        detail = ''
        if tt_ok:
            for b0 in (0, 1):
                for b10 in (0, 1):
                    want_skip = not (b0 == 1 and b10 == 0)
                    outs = set()
                    for o in fg.option:
                        if consistent(o['conds'], {0x0001: b0, 0x0400: b10}):
                            outs.add(o['kind'] == 'SkipField' and o['target'] == 'bitmapComprHdr')
                    if outs != {want_skip}:
                        tt_ok = False
                        detail += ' [compression=%d nohdr=%d -> skip %s, spec %s]' % (b0, b10, sorted(outs), want_skip)
        ctx.check(tt_ok, 'R10.4', 'comprHdr:truth_table',
                  'bitmapComprHdr is skipped exactly when BITMAP_COMPRESSION is clear or NO_BITMAP_COMPRESSION_HDR is set (4 combinations decided)',
                  sh.body.where(), 'ts_bitmap_data: the compression-header skip condition differs from MS-RDPBCGR:' + detail)
        break
    # ts_fp_update: compressionFlags present iff FASTPATH_OUTPUT_COMPRESSION_USED (bit 1 of the 2-bit compression field = header bit 7)
    for sh, fl in dsl.returned_components(P, 'core::global::ts_fp_update'):
        d = {f.key: f for f in fl}
        uh = d.get('updateHeader')
        present = {}
        undecided = 0
        for v in range(256):
            outs = set()
            for o in (uh.option or []) if uh is not None else []:
                vals = [eval_int(e, {('param', 2): v, ('param', 1): v}) for e, t in o['conds']]
                if any(x is None for x in vals):
                    undecided += 1
                    continue
                if all(bool(x) == t for x, (e, t) in zip(vals, o['conds'])):
                    outs.add((o['kind'], o.get('target')))
            present[v] = ('SkipField', 'compressionFlags') not in outs if outs else None
        want = {v: bool((v >> 6) & 0x2) for v in range(256)}
        bad = [v for v in range(256) if present[v] != want[v]]
        ctx.check(uh is not None and not undecided and not bad, 'R10.4', 'fp_update:compression_bit',
                  'the compressionFlags byte is expected exactly when bit 7 of updateHeader (compression = FASTPATH_OUTPUT_COMPRESSION_USED) is set: decided for all 256 headers',
                  sh.body.where(), 'ts_fp_update expects / skips the compressionFlags byte wrongly for %d of 256 update headers (e.g. 0x%02x): MS-RDPBCGR 2.2.9.1.2.1 puts '
                  'updateCode in bits 3..0, fragmentation in bits 5..4 and compression in bits 7..6; a wrong bit makes the update sizes - and every update after it in the PDU - be misread'
                  % (len(bad), bad[0] if bad else 0))
        sz = d.get('size')
        good = sz is not None and sz.option and [(o['kind'], o['target'], dsl.size_formula(o['size'])) for o in sz.option] == [('Size', 'updateData', ('self', 0, 1))]
        ctx.check(good, 'R10.4', 'fp_update:size', 'each fast-path update takes exactly `size` bytes of update data', sh.body.where(),
                  'ts_fp_update: size does not size updateData with its own value')
        break

    # sized fields are read through an exact sub-buffer whatever the size (incl. 0)
    cr = ctx.body('<indexmap::IndexMap<std::string::String, std::boxed::Box<(dyn model::data::Message + \'static)>> as model::data::Message>::read')
    n_sized = 0
    for path, st in feasible_paths(cr, P, limit=200000):
        ck = []
        for ev in path_branches(st):
            d = strip(ev[2])
            # the size registered for this field is found: `contains_key(name)` true, or `get(name)` is Some
            if d[0] == 'call' and d[1].endswith('contains_key') and 'HashMap' in d[1] and branch_truth(ev):
                ck.append(ev)
            elif d[0] == 'discr' and ev[3] == 1:
                x_ = unwrap_cast(d[1])
                while x_[0] == 'call' and re.search(r'Option::<&(mut )?T>::(cloned|copied)$', x_[1]) and x_[3]:
                    x_ = unwrap_cast(x_[3][0])
                if x_[0] == 'call' and 'HashMap' in x_[1] and x_[1].endswith('::get'):
                    ck.append(ev)
        if not ck:
            continue
        n_sized += 1
        idx = st.events.index(ck[-1])
        after = st.events[idx + 1:]
        nxt_calls = [ev for ev in after if ev[0] == 'call']
        extra_br = []
        sized = None
        for ev in after:
            if ev[0] == 'call' and ev[1].orig == 'std::io::Read::read_exact':
                sized = ev
                break
            if ev[0] == 'branch':
                d = strip(ev[2])
                if not (d[0] == 'discr' or (d[0] == 'const')) and not is_dropflag(d):
                    extra_br.append(show(d)[:60])
        ctx.check(sized is not None and not extra_br, 'R10.4', 'component_read:sized',
                  'Component::read: once a size is registered for a field the field is read from an exact sub-buffer, unconditionally', cr.where(),
                  'Component::read: a field with a registered size is not always read through its exact sub-buffer (extra condition %s): '
                  'e.g. an empty field would swallow the rest of the stream' % extra_br)
    ctx.floor('R10.4', 'sized-field paths in Component::read', n_sized, 1)
    # a later Size option for the same field replaces an earlier one (bitmapComprHdr overrides bitmapLength): overwriting insert
    ins_calls = [c for c in cr.calls if re.search(r'HashMap::<K, V, S(, A)?>::insert$', c.callee)]
    weak = [c for c in cr.calls if re.search(r'hash_map::Entry<.*>::or_insert(_with)?$|HashMap::<K, V, S(, A)?>::(entry|try_insert)$', c.callee)]
    ctx.check(len(ins_calls) >= 1 and not weak, 'R10.4', 'component_read:size_override',
              'Component::read registers a Size option with an overwriting HashMap::insert: the last option read for a field decides its size', cr.where(),
              'Component::read does not register Size options with a plain overwriting insert (%s): when two fields size the same later field '
              '(bitmapLength and the compression header) the first one wins and the payload is cut at the wrong place'
              % ([c.callee.rsplit('::', 2)[-2] + '::' + c.callee.rsplit('::', 1)[-1] for c in weak] or 'no HashMap::insert'))

    # ---- R10.5 routing ------------------------------------------------------------------------------------------------
    mr = ctx.body('core::mcs::Client::<S>::read')
    n = 0
    for path, st in feasible_paths(mr, P, limit=100000):
        v = strip(st.env.get(0))
        if v[0] == 'agg' and v[2] == 'Ok':
            t = resolve(st, v[3][0])
            pk = [x for x in walk(t) if x[0] == 'agg' and x[1] == 'core::tpkt::Payload']
            if pk and pk[0][2] == 'FastPath':
                n += 1
                ctx.check('global' in keys_in(t), 'R10.5', 'mcs:fastpath', 'fast-path payloads are attributed to channel "global"', mr.where(),
                          'mcs::Client::read does not route fast-path payloads to the global channel')
    ctx.floor('R10.5', 'fast-path Ok paths of mcs::Client::read', n, 1)
    # the deframer hands over the complete fast-path PDU: declared length decoded bit-exactly, all of it read (shared with C13)
    import c13
    ctx.include(c13.run, ('R13.1', 'R13.2', 'R13.5', 'R13.6', 'R13.7'), 'R10.5')
    # ---- R10.6 update code: bits 3..0 of updateHeader select the update kind; only code 1 is parsed as bitmap rectangles ----------
    from bits import Bits, describe
    ff = ctx.body('core::global::FastPathUpdate::from_fp')
    spec_codes = {'FastpathUpdatetypeOrders': 0, 'FastpathUpdatetypeBitmap': 1, 'FastpathUpdatetypePalette': 2, 'FastpathUpdatetypeSynchronize': 3,
                  'FastpathUpdatetypeSurfcmds': 4, 'FastpathUpdatetypePtrNull': 5, 'FastpathUpdatetypePtrDefault': 6, 'FastpathUpdatetypePtrPosition': 8,
                  'FastpathUpdatetypeColor': 9, 'FastpathUpdatetypeCached': 10, 'FastpathUpdatetypePointer': 11}
    ev = dict(P.enum_variants('core::global::FastPathUpdateType'))
    for nm, val in spec_codes.items():
        ctx.check(ev.get(nm) == val, 'R10.6', 'code:%s' % nm, 'update code %s = %d (MS-RDPBCGR 2.2.9.1.2.1)' % (nm, val), ff.where(),
                  'FastPathUpdateType::%s has value %s, MS-RDPBCGR 2.2.9.1.2.1 says %d' % (nm, ev.get(nm), val))
    n_code = n_bmp = 0
    for path, st in feasible_paths(ff, P, limit=100000):
        conv = [e for e in path_calls(st) if 'FastPathUpdateType as std::convert::TryFrom' in e[1].callee]
        if not conv:
            continue
        arg = resolve(st, conv[0][2][0])
        B = Bits()
        bits = B.eval(arg, 8, 8)
        leaf_ok = len(B.leaves) == 1 and 'updateHeader' in keys_in(B.leaves[0])
        want = [(0, k) for k in range(4)] + [0, 0, 0, 0]
        n_code += 1
        ctx.check(leaf_ok and bits == want, 'R10.6', 'code:bits', 'the update code is bits 3..0 of updateHeader [%s]' % describe(bits, {0: 'updateHeader'}), ff.where(),
                  'the update kind is decoded from updateHeader as [%s]; MS-RDPBCGR 2.2.9.1.2.1: updateCode = bits 3..0 (fragmentation 5..4, compression 7..6): '
                  'another update kind can be taken for a bitmap update' % describe(bits, {0: 'updateHeader'}))
        calls = [e[1].callee for e in path_calls(st)]
        if any(c.endswith('ts_fp_update_bitmap') for c in calls):
            n_bmp += 1
            sel = None
            for br in path_branches(st):
                d = strip(resolve(st, br[2]))
                if d[0] == 'discr' and br[3] is not None and any(n[0] == 'call' and 'FastPathUpdateType as std::convert::TryFrom' in n[1] for n in walk(d)) \
                        and not any(n[0] == 'call' and n[1].endswith('Try>::branch') for n in walk(d)):
                    sel = br[3]
                elif d[0] == 'discr' and br[3] is not None and strip(d[1])[0] in ('field', 'variant', 'call') and 'FastPathUpdateType' in str(br[2]) and sel is None:
                    sel = br[3]
            ctx.check(sel == ev.get('FastpathUpdatetypeBitmap'), 'R10.6', 'code:bitmap_arm', 'only update code FastpathUpdatetypeBitmap is parsed with the bitmap layout', ff.where(),
                      'the bitmap layout is selected by update kind discriminant %s, not FastpathUpdatetypeBitmap' % sel)
    ctx.floor('R10.6', 'paths of from_fp that convert the update code', n_code, 2)
    ctx.floor('R10.6', 'paths of from_fp that build a bitmap update', n_bmp, 1)
    rr = ctx.body('core::client::RdpClient::<S>::read')
    gl = rr.calls_to('core::global::Client::read')
    ctx.check(len(gl) == 1, 'R10.5', 'rdpclient:dispatch', 'RdpClient::read dispatches to global::Client::read', rr.where())


def is_dropflag(d):
    return d[0] == 'const'


def consistent(conds, bits):
    """conds: [(expr, truth)] of a closure path; bits: {mask: 0/1}. Decide each literal of the form
    Eq/Ne(BitAnd(x, mask), 0) under the assignment; unknown literals make the path inconsistent-unknown (treated as consistent)."""
    for e, truth in conds:
        e = fold(e)
        if e[0] == 'bin' and e[1] in ('Eq', 'Ne'):
            l, r = fold(e[2]), fold(e[3])
            if r[0] == 'const' and r[1] == 0:
                x = unwrap_cast(l)
                if x[0] == 'bin' and x[1] == 'BitAnd':
                    m = fold(x[3])
                    if m[0] != 'const':
                        m = fold(x[2])
                    if m[0] == 'const' and m[1] in bits:
                        val_is_zero = (bits[m[1]] == 0)
                        lit = val_is_zero if e[1] == 'Eq' else (not val_is_zero)
                        if lit != truth:
                            return False
    return True


def check_mapping(ctx, P, fp, st, cb):
    arg = resolve(st, cb[2][1])
    be = [x for x in walk(arg) if x[0] == 'agg' and x[1] == 'core::event::BitmapEvent']
    if not be:
        ctx.fail('R10.2', 'event:shape', 'the callback is not given RdpEvent::Bitmap(BitmapEvent{..})', fp.where())
        return
    be = be[0]
    dt = {n: d for n, d in P.enum_variants('model::data::DataType')} if 'model::data::DataType' in P.adts else {}
    for fname, e in zip(be[4], be[3]):
        want = MAP.get(fname)
        if want is None:
            ctx.fail('R10.2', 'event:field:%s' % fname, 'BitmapEvent has a field %s unknown to the reference mapping' % fname, fp.where())
            continue
        ks = keys_in(e)
        variants = [x[2] for x in walk(e) if x[0] == 'variant' and x[2] in ('U16', 'U8', 'U32', 'Slice', 'Component', 'Trame')]
        good = ks[-1:] == [want[0]] and variants[:1] == [want[1]]
        if fname == 'is_compress':
            f = fold(e)
            good = good and f[0] == 'bin' and f[1] == 'Ne' and fold(f[3])[1] == 0 and unwrap_cast(f[2])[0] == 'bin' \
                and unwrap_cast(f[2])[1] == 'BitAnd' and fold(unwrap_cast(f[2])[3])[1] == 0x0001
        ctx.check(good, 'R10.2', 'event:field:%s' % fname,
                  'BitmapEvent.%s <- %s["%s"] (as %s)%s' % (fname, 'bitmap', want[0], want[1], ' & BITMAP_COMPRESSION != 0' if fname == 'is_compress' else ''),
                  fp.where(), 'read_fast_path builds BitmapEvent.%s from key %s cast %s; expected "%s" as %s' % (fname, ks[-1:], variants[:1], want[0], want[1]))
    ctx.check(set(be[4]) == set(MAP), 'R10.2', 'event:fields', 'BitmapEvent carries exactly the nine reference fields', fp.where())
