"""D-shape support (DESIGN.md 3.3): which DSL constructor(s) can have built the component / struct a value refers to.

A small demand-driven, interprocedural "constructor-set" analysis over MIR: backward slices (facts.origins) to constructor
calls, through function returns, parameters (union over all call sites), nested component fields, array element factories,
and narrowed by the tag guards (`pdu.pdu_type == X`, `match order.fp_type { X => .. }`) that dominate the program point.
Result None means "unknown" (any constructor) and never discharges anything."""
from common import *
import dsl
from sym import eval_promoted

TAG_FIELDS = ('pdu_type', 'fp_type', 'cap_type', 'event_type')
INDEX_RX = re.compile(r'^<indexmap::IndexMap<K, V, S> as std::ops::Index<&Q>>::index$')
VISIT = ('model::data::Message::visit', 'nla::asn1::ASN1::visit')


class ShapeFlow:
    def __init__(self, P):
        self.P = P
        self.ctors = set(dsl.constructors(P))
        self._keys = {}
        self._ret = {}
        self._param = {}
        self._busy = set()
        self._cuts = 0

    # ------------------------------------------------------------------ constructor facts
    def shapes(self, fn):
        return dsl.returned_components(self.P, fn)

    def keysets(self, fn):
        if fn not in self._keys:
            self._keys[fn] = [set(f.key for f in fl) for sh, fl in self.shapes(fn)]
        return self._keys[fn]

    def tag(self, fn):
        for sh in dsl.shapes_of(self.P, fn):
            if sh.tag:
                return sh.tag
        return None

    def field(self, fn, key):
        out = []
        for sh, fl in self.shapes(fn):
            for f in fl:
                if f.key == key:
                    out.append(f)
        return out

    # ------------------------------------------------------------------ the analysis
    def body_key(self, b):
        return self.P.key_of(b)

    def ret_ctors(self, fn, depth=0):
        """constructors whose component a call to fn may return (directly, inside a struct, or inside Ok/Some/enum payloads)"""
        if fn in self.ctors:
            return {fn}
        if fn in self._ret:
            return self._ret[fn]
        b = self.P.bodies.get(fn)
        if b is None:
            return None
        if depth > 16 or fn in self._busy:
            self._cuts += 1
            return None
        cuts0 = self._cuts
        self._busy.add(fn)
        out = set()
        unknown = False
        for o in origins(b, {'k': 'copy', 'place': {'l': 0, 'p': []}}):
            r = self.leaf_ctors(b, o, None, depth + 1)
            if r is None:
                # leaves that cannot carry a component (error constructors, constants ...) are ignored
                if o.kind == 'call' and self.may_carry_component(o.call):
                    unknown = True
            else:
                out |= r
        self._busy.discard(fn)
        res = None if (unknown or not out) else out
        if self._cuts == cuts0 or res is not None:
            self._ret[fn] = res
        return res

    def may_carry_component(self, call):
        if call.callee.endswith('from_residual'):
            return False        # propagates an Err only
        ty = call.body.local_ty(call.dest['l']) if not call.dest['p'] else ''
        return 'IndexMap<' in ty or 'core::global::PDU' in ty or 'DataPDU' in ty or 'FastPathUpdate' in ty or 'Capability' in ty \
            or 'LicenseMessage' in ty or 'dyn model::data::Message' in ty or 'DataType<' in ty

    def param_ctors(self, fn, param, depth):
        key = (fn, param)
        if key in self._param:
            return self._param[key]
        if depth > 14 or key in self._busy:
            self._cuts += 1
            return None
        cuts0 = self._cuts
        self._busy.add(key)
        b = self.P.bodies.get(fn)
        out = set()
        unknown = False
        callers = self.P.callers.get(fn, [])
        if b is not None and b.kind == 'Closure':
            r = self.closure_param_ctors(b, param)
            self._busy.discard(key)
            self._param[key] = r
            return r
        if not callers:
            unknown = True
        for c in callers:
            if param - 1 >= len(c.args):
                unknown = True
                continue
            r = self.ctors_of(c.body, c.args[param - 1], c.block, depth + 1)
            if r is None:
                unknown = True
            else:
                out |= r
        self._busy.discard(key)
        res = None if (unknown or not out) else out
        if self._cuts == cuts0 or res is not None:
            self._param[key] = res
        return res

    def closure_param_ctors(self, b, param):
        """DynOption filter closure: parameter 2 is the wrapped inner value; find the constructor field that owns the closure"""
        if param != 2:
            return None
        for fn in self.ctors:
            for sh, fl in self.shapes(fn):
                for f in fl:
                    if f.closure == self.body_key(b) or f.closure == b.path:
                        ie = getattr(f, 'inner_expr', None)
                        if ie is not None:
                            x = unwrap_cast(ie)
                            if x[0] == 'call' and x[1] in self.ctors:
                                return {x[1]}
                            if x[0] == 'call':
                                return self.ret_ctors(x[1])
        return None

    def ctors_of(self, body, op, at_block, depth=0):
        """constructor set of the component / struct value denoted by operand `op` in `body`, narrowed by the tag guards
        dominating `at_block`"""
        if depth > 18:
            self._cuts += 1
            return None
        out = set()
        unknown = False
        for o in origins(body, op):
            r = self.leaf_ctors(body, o, at_block, depth)
            if r is None:
                if o.kind == 'call' and not self.may_carry_component(o.call):
                    continue
                if o.kind in ('const', 'agg'):
                    continue
                unknown = True
            else:
                out |= r
        if unknown or not out:
            return None
        if at_block is not None:
            out = self.narrow(body, op, at_block, out)
        return out

    def leaf_ctors(self, body, o, at_block, depth):
        if o.kind == 'call':
            c = o.call
            name = c.callee
            if name in self.ctors:
                return {name}
            ck = name if name in self.P.bodies else body.crate + '::' + name
            if INDEX_RX.match(name):
                # nested component field: ctor of the field `key` of the indexed map
                key = const_str(c.args[1])
                outer = self.ctors_of(body, c.args[0], c.block, depth + 1)
                if outer is None or key is None:
                    return None
                res = set()
                for F in outer:
                    r = self.field_ctors(F, key)
                    if r is None:
                        return None
                    res |= r
                return res or None
            if name in VISIT and c.args:
                # DataType::Component(&c) / DataType::Trame(&t) payloads: the visited message itself
                return self.ctors_of(body, c.args[0], c.block, depth + 1)
            if name.endswith('Iterator>::next') and c.args:
                # element of an iteration over a trame: element factory of the iterated array
                return self.element_ctors(body, c.args[0], c.block, depth + 1)
            if re.search(r'Option::<T>::ok_or$|Option::<T>::unwrap$|HashMap::<K, V, S(, A)?>::get$', name) and c.args:
                if 'HashMap' in name:
                    return self.hashmap_get_ctors(body, c, depth)
                return self.ctors_of(body, c.args[0], c.block, depth + 1)
            if name == 'model::data::Array::<T>::inner' and c.args:
                return self.ctors_of(body, c.args[0], c.block, depth + 1)
            if name in ('model::data::Array::<T>::new',) and c.args:
                return self.factory_ctors(body, c.args[0])
            if ck in self.P.bodies:
                return self.ret_ctors(ck, depth + 1)
            return None
        if o.kind == 'param':
            return self.param_ctors(self.body_key(body), o.param, depth + 1)
        return None

    def field_ctors(self, F, key):
        """constructors of the value stored in field `key` of constructor F (nested component / array elements)"""
        fs = self.field(F, key)
        if not fs:
            return None
        res = set()
        for f in fs:
            e = f.expr
            if f.kind == 'Dyn':
                e = getattr(f, 'inner_expr', e)
            x = unwrap_cast(e)
            if f.kind == 'Array' or (f.kind == 'Dyn' and dsl.classify(f.inner_ty or '')[0] == 'Array'):
                if f.closure:
                    r = self.closure_ret_ctors(f.closure)
                    if r is None:
                        return None
                    res |= r
                    continue
                return None
            if x[0] == 'call' and x[1] in self.ctors:
                res.add(x[1])
            elif x[0] == 'call':
                r = self.ret_ctors(x[1])
                if r is None:
                    return None
                res |= r
            else:
                return None
        return res or None

    def closure_ret_ctors(self, closure_path):
        b = self.P.bodies.get(closure_path)
        if b is None:
            for k, bb in self.P.bodies.items():
                if bb.path == closure_path:
                    b = bb
        if b is None:
            return None
        return self.ret_ctors(self.body_key(b))

    def factory_ctors(self, body, op):
        for o in origins(body, op):
            if o.kind == 'agg' and o.extra.get('kind') == 'closure':
                return self.closure_ret_ctors(o.extra['closure'])
        # closure aggregate assigned to a local
        l = op_local(op)
        for d in body.defs.get(l, []) if l is not None else []:
            if d[0] == 'stmt' and d[3]['rv']['rv'] == 'agg' and d[3]['rv'].get('kind') == 'closure':
                return self.closure_ret_ctors(d[3]['rv']['closure'])
        return None

    def element_ctors(self, body, iter_arg, at_block, depth):
        """constructors of the elements yielded by the iterator `iter_arg` (slice / vec iterators over a trame)"""
        res = set()
        for o in origins(body, iter_arg):
            if o.kind == 'call' and o.call.callee in VISIT and o.call.args:
                # iterating DataType::Trame(&t) of a field:  cast!(Trame, m["k"])
                for o2 in origins(body, o.call.args[0]):
                    if o2.kind == 'call' and INDEX_RX.match(o2.call.callee):
                        key = const_str(o2.call.args[1])
                        outer = self.ctors_of(body, o2.call.args[0], o2.call.block, depth + 1)
                        if outer is None or key is None:
                            return None
                        for F in outer:
                            r = self.field_ctors(F, key)
                            if r is None:
                                return None
                            res |= r
                    elif o2.kind == 'call' and o2.call.callee == 'model::data::Array::<T>::new':
                        r = self.factory_ctors(body, o2.call.args[0])
                        if r is None:
                            return None
                        res |= r
                    else:
                        return None
            elif o.kind == 'call' and o.call.callee == 'model::data::Array::<T>::new':
                r = self.factory_ctors(body, o.call.args[0])
                if r is None:
                    return None
                res |= r
            elif o.kind == 'call' and o.call.callee == 'model::data::Array::<T>::inner' and o.call.args:
                for o2 in origins(body, o.call.args[0]):
                    if o2.kind == 'call' and o2.call.callee == 'model::data::Array::<T>::new':
                        r = self.factory_ctors(body, o2.call.args[0])
                        if r is None:
                            return None
                        res |= r
                    else:
                        return None
            elif o.kind in ('const', 'agg'):
                continue
            elif o.kind == 'call' and not self.may_carry_component(o.call):
                continue
            else:
                return None
        return res or None

    def hashmap_get_ctors(self, body, c, depth):
        """HashMap<enum, Component>::get(&Variant): the constructor inserted under that variant in this function"""
        want = None
        for o in origins(body, c.args[1]):
            if o.kind == 'agg':
                want = o.extra.get('variant')
            elif o.kind == 'const' and isinstance(o.extra, dict) and 'promoted' in o.extra:
                v = eval_promoted(body, o.extra['promoted'])
                v = unwrap_cast(v) if v else None
                if v and v[0] == 'agg':
                    want = v[2]
        if want is None:
            return None
        res = set()
        for ins in body.calls:
            if re.search(r'HashMap::<K, V, S(, A)?>::insert$', ins.callee) and len(ins.args) == 3:
                kv = None
                for o in origins(body, ins.args[1]):
                    if o.kind == 'agg':
                        kv = o.extra.get('variant')
                if kv == want:
                    r = self.ctors_of(body, ins.args[2], ins.block, depth + 1)
                    if r is None:
                        return None
                    res |= r
                elif kv is None:
                    # computed key (`map.insert(Tag::from(x), component)`): decided per path, see computed_key_inserts
                    m = self.computed_key_inserts(body, ins)
                    if m is None:
                        return None
                    res |= m.get(want, set())
        return res or None

    def computed_key_inserts(self, body, ins):
        """insert(k, v) whose key is not a literal variant: on every path from the head of the enclosing loop (or the function entry)
        to the insert, the key must be a value whose discriminant was tested on that path (`match Tag::from(x) { A => ctor_a(), .. }`
        followed by `insert(Tag::from(x), v)`); the path then contributes (tested variant -> constructors of v on that path).
        None when some path does not determine the key."""
        ck = ('cki', self.body_key(body), ins.block)
        if ck in self._ret:
            return self._ret[ck]
        self._ret[ck] = None
        from sym import enum_paths, run_path, PathLimit
        ib = ins.block

        def reach(s):
            seen = {s}
            q = [s]
            while q:
                x = q.pop()
                for y in body.succ[x]:
                    if y not in seen:
                        seen.add(y)
                        q.append(y)
            return seen
        down = reach(ib)
        scc = set(x for x in down if ib in reach(x))
        heads = [x for x in scc if any(p not in scc for p in body.pred[x])] if len(scc) > 1 else [0]
        if len(heads) != 1:
            return None
        try:
            paths = enum_paths(body, start=heads[0], limit=50000, stop_blocks=[ib])
        except PathLimit:
            return None
        adt = None
        out = {}
        n = 0
        for p in paths:
            if p[-1] != ib or ib in p[:-1]:
                continue
            st = run_path(body, p, self.P)
            if not st.feasible:
                continue
            st.cur = ib
            k = strip(resolve(st, st.operand(ins.args[1])))
            v = resolve(st, st.operand(ins.args[2]))
            variant = None
            for ev in st.events:
                if ev[0] == 'branch' and ev[3] is not None:
                    d = strip(resolve(st, ev[2]))
                    if d[0] == 'discr' and strip(d[1]) == k and d[2]:
                        variant = (d[2], ev[3])
            if variant is None:
                return None
            name = None
            for a, info in self.P.adts.items():
                if a == variant[0] or variant[0].endswith(a):
                    for vv in info['variants']:
                        if vv.get('discr') == variant[1]:
                            name = vv['name']
            if name is None:
                return None
            cs = set()

            bad = []

            def spine(e, depth=0):
                # the component the value is (or wraps): through wrappers, payloads and in-place mutations (`c.read(..)` keeps c's constructor)
                if not isinstance(e, tuple) or depth > 80 or not e:
                    return
                if e[0] in ('via',):
                    spine(e[2], depth + 1)
                elif e[0] in ('field', 'variant', 'ref', 'deref', 'refm', 'cast'):
                    spine(e[1], depth + 1)
                elif e[0] == 'mutated':
                    spine(e[3], depth + 1)
                elif e[0] == 'agg':
                    for x in e[3]:
                        spine(x, depth + 1)
                elif e[0] == 'call':
                    if e[1] in self.ctors:
                        cs.add(e[1])
                    else:
                        r = self.ret_ctors(e[1]) if e[1] in self.P.bodies else None
                        if r is None:
                            bad.append(e[1])
                        else:
                            cs.update(r)
                elif e[0] in ('const', 'fnconst'):
                    pass
                else:
                    bad.append(e[0])
            spine(v)
            if bad:
                return None
            if not cs:
                return None
            out.setdefault(name, set()).update(cs)
            n += 1
        self._ret[ck] = out if n else None
        return self._ret[ck]

    def sequence_keys(self, body):
        """string keys inserted into ASN.1 Sequence maps by `body` and its closures"""
        out = set()
        bodies = [body] + self.P.closures_of(body.path)
        for b in bodies:
            for c in b.calls:
                if c.callee == dsl.INSERT and len(c.args) == 3:
                    l = op_base(c.args[0])
                    tys = [b.local_ty(t) for t in ([self_root(b, l)] if l is not None else [])]
                    for o in origins(b, c.args[1]):
                        srcs = [o]
                        if o.kind == 'call' and o.call.callee.endswith('to_string') and o.call.args:
                            srcs = origins(b, o.call.args[0])
                        for o2 in srcs:
                            if o2.kind == 'const' and isinstance(o2.const, str):
                                m = re.match(r'^(?:const )?"(.*)"$', o2.const)
                                if m:
                                    out.add(m.group(1))
        return out

    def sequence_index_ok(self, body, c):
        """Index on an ASN.1 Sequence with a literal key: the key is inserted by the function that builds the sequence"""
        key = const_str(c.args[1])
        if key is None:
            return False
        builders = [body]
        for o in origins(body, c.args[0]):
            if o.kind == 'call':
                ck = o.call.callee if o.call.callee in self.P.bodies else body.crate + '::' + o.call.callee
                if ck in self.P.bodies:
                    builders.append(self.P.bodies[ck])
        return any(key in self.sequence_keys(b) for b in builders)

    # ------------------------------------------------------------------ tag guards
    def narrow(self, body, op, at_block, cands):
        """keep only the constructors whose tag is compatible with the tag comparisons dominating at_block"""
        base = self.struct_base(body, op)
        if base is None:
            return cands
        req = self.dominating_tags(body, base, at_block)
        if not req:
            return cands
        out = set()
        for F in cands:
            t = self.tag(F)
            ok = True
            for (fld, var, equal) in req:
                if t is None:
                    continue
                if t[0] != fld:
                    continue
                if equal and t[1] != var:
                    ok = False
                if not equal and t[1] == var:
                    ok = False
            if ok:
                out.add(F)
        return out or cands

    def struct_base(self, body, op):
        """local holding the struct (PDU / DataPDU / ...) whose `.message` the operand denotes"""
        seen = set()
        work = [op]
        n = 0
        while work and n < 200:
            n += 1
            o = work.pop()
            if not is_place_op(o):
                continue
            pl = o['place']
            if any(p['k'] == 'field' and p['name'] == 'message' for p in pl['p']):
                return self.root_local(body, pl['l'])
            l = pl['l']
            if l in seen:
                continue
            seen.add(l)
            for d in body.defs.get(l, []):
                if d[0] == 'stmt':
                    rv = d[3]['rv']
                    if rv['rv'] in ('use', 'cast'):
                        work.append(rv['op'])
                    elif rv['rv'] in ('ref', 'rawptr'):
                        work.append({'k': 'copy', 'place': rv['place']})
        # a struct passed whole (e.g. &PDU argument)
        l = op_base(op) if is_place_op(op) else None
        return self.root_local(body, l) if l is not None else None

    def root_local(self, body, l, depth=0):
        if depth > 10:
            return l
        ds = body.defs.get(l, [])
        if len(ds) == 1 and ds[0][0] == 'stmt':
            rv = ds[0][3]['rv']
            if rv['rv'] in ('ref', 'rawptr') and not any(p['k'] == 'field' for p in rv['place']['p']):
                return self.root_local(body, rv['place']['l'], depth + 1)
            if rv['rv'] in ('use', 'cast') and is_place_op(rv['op']) and not rv['op']['place']['p']:
                return self.root_local(body, rv['op']['place']['l'], depth + 1)
        return l

    def dominating_tags(self, body, base, at_block):
        """[(tag field, variant, must_equal)] established on every path to at_block for struct local `base`"""
        req = []
        for b in range(body.n):
            if body.blocks[b]['cleanup'] or b not in body.live_blocks:
                continue
            t = body.blocks[b]['term']
            if t['t'] != 'switch':
                continue
            dl = op_local(t['discr'])
            if dl is None:
                continue
            for d in body.defs.get(dl, []):
                if d[0] == 'call' and re.search(r'PartialEq(<.*>)?>?::(eq|ne)$', d[2].callee) and len(d[2].args) == 2:
                    c = d[2]
                    fld, var = self.cmp_operands(body, c, base)
                    if fld is None:
                        continue
                    edges = bool_edges(body, b)
                    if not edges:
                        continue
                    tru, fls = edges
                    is_eq = c.callee.endswith('eq')
                    if body.dominated_by_edges(at_block, [(b, tru)]) and tru != fls:
                        req.append((fld, var, is_eq))
                    elif body.dominated_by_edges(at_block, [(b, fls)]) and tru != fls:
                        req.append((fld, var, not is_eq))
                elif d[0] == 'stmt' and d[3]['rv']['rv'] == 'discr':
                    pl = d[3]['rv']['place']
                    if self.root_local(body, pl['l']) != base and pl['l'] != base:
                        continue
                    flds = [p['name'] for p in pl['p'] if p['k'] == 'field']
                    if not flds or flds[-1] not in TAG_FIELDS:
                        continue
                    ty = d[3]['rv'].get('ty')
                    if ty not in self.P.adts:
                        continue
                    dv = {v.get('discr'): v['name'] for v in self.P.adts[ty]['variants']}
                    sw = body.switch_edges(b)
                    for val, tg in sw.items():
                        if val == 'otherwise':
                            continue
                        others = [x for v2, x in sw.items() if v2 != val]
                        if tg in others:
                            continue
                        if body.dominated_by_edges(at_block, [(b, tg)]):
                            req.append((flds[-1], dv.get(val), True))
        return req

    def cmp_operands(self, body, c, base):
        """for PartialEq::eq/ne(&x.tag, &Variant): (tag field, variant) if x is the struct local `base`"""
        fld = None
        var = None
        for a in c.args:
            for o in origins(body, a, stop_at=lambda cc: True):
                if o.kind == 'const' and isinstance(o.extra, dict) and 'promoted' in o.extra:
                    v = eval_promoted(body, o.extra['promoted'])
                    v = unwrap_cast(v) if v else None
                    if v and v[0] == 'agg':
                        var = v[2]
                elif o.kind == 'agg':
                    var = o.extra.get('variant')
            # the field side
            l = op_local(a)
            for d in body.defs.get(l, []) if l is not None else []:
                if d[0] == 'stmt' and d[3]['rv']['rv'] in ('ref',):
                    pl = d[3]['rv']['place']
                    flds = [p['name'] for p in pl['p'] if p['k'] == 'field']
                    if flds and flds[-1] in TAG_FIELDS and (pl['l'] == base or self.root_local(body, pl['l']) == base):
                        fld = flds[-1]
        if fld is None or var is None:
            return None, None
        return fld, var


def op_base(op):
    if is_place_op(op):
        return op['place']['l']
    return None


def self_root(body, l, depth=0):
    if depth > 8:
        return l
    ds = body.defs.get(l, [])
    if len(ds) == 1 and ds[0][0] == 'stmt' and ds[0][3]['rv']['rv'] in ('ref', 'rawptr') and not ds[0][3]['rv']['place']['p']:
        return ds[0][3]['rv']['place']['l']
    if len(ds) == 1 and ds[0][0] == 'stmt' and ds[0][3]['rv']['rv'] in ('ref', 'rawptr') and ds[0][3]['rv']['place']['p'][0]['k'] == 'deref':
        return self_root(body, ds[0][3]['rv']['place']['l'], depth + 1)
    return l
