"""C16 - NTLM session security seals per MS-NLMP, round-trips, and rejects tampering (DESIGN.md 4/C16, Appendix A.6)."""
from common import *
import dsl

META = {
    'level': 'other',
    'explanation': 'Structural analysis of the NTLMv2 security context on the MIR of the current tree: (R16.1) tamper rejection - '
                   'gss_unwrapex returns Ok only on the equal edge of decrypt(Checksum) == HMAC_MD5(verify_key, SeqNum || decrypt(payload))[0..8] '
                   '(rule shared with C01), the signature layout is Version(=1, constant-checked) / Checksum(8) / SeqNum(4); (R16.2) the '
                   'sealing side applies its RC4 handle to the data then to the signature and the unsealing side applies its handle to the '
                   'payload then to the checksum - same order on both sides, one handle per direction; (R16.3) key roles: client seals and '
                   'signs with the client-to-server keys, unseals and verifies with the server-to-client keys, the four MS-NLMP magic strings '
                   'are selected by (function, is_client) as in 3.4.5.2/3.4.5.3 and the keys reach the right fields; (R16.4) the sequence '
                   'number used by mac is the field value and it is incremented exactly once per sealed message; (R16.5) RC4 index '
                   'arithmetic uses modulus 256 only; (R16.6) the RC4 output step advances i, then j, swaps, then reads the output byte. Byte identity with MS-NLMP (values of HMAC-MD5/RC4/MD5) is not decided.',
    'assumptions': ['hmac/md-5 crates compute HMAC-MD5/MD5', 'RC4 permutation values are not evaluated'],
    'trusted_base': ['rustc nightly MIR construction', 'mirfacts exporter', 'rules/c16.py, c01.py, dsl.py, sym.py, facts.py'],
}
META['explanation'] += ' (R16.7) gss_unwrapex reads the ciphertext into a buffer created empty in the call; (R16.8) the only refusal it decides itself comes after the checksum comparison.'

SI = 'nla::ntlm::NTLMv2SecurityInterface'
WRAP = '<%s as nla::sspi::GenericSecurityService>::gss_wrapex' % SI
UNWRAP = '<%s as nla::sspi::GenericSecurityService>::gss_unwrapex' % SI
PROCESS = 'nla::rc4::Rc4::process'
MAGIC = {
    ('sign_key', True): 'session key to client-to-server signing key magic constant',
    ('sign_key', False): 'session key to server-to-client signing key magic constant',
    ('seal_key', True): 'session key to client-to-server sealing key magic constant',
    ('seal_key', False): 'session key to server-to-client sealing key magic constant',
}


def self_field(e):
    """name of the field of `self` (param 1) an address expression denotes, else None"""
    for n in walk(e):
        if n[0] == 'field' and unwrap_cast(n[1]) == ('param', 1):
            return n[2]
        if n[0] == 'field' and n[1][0] == 'deref' and n[1][1] == ('param', 1):
            return n[2]
    return None


def run(ctx):
    P = ctx.prog
    # ---- R16.1 ------------------------------------------------------------------------------------------------
    import c01
    ctx.include(c01.run, ('R01.5',), 'R16.1')
    for sh, fl in dsl.returned_components(P, 'nla::ntlm::message_signature_ex'):
        good = [(f.key, f.kind if f.kind != 'Check' else 'Check:' + dsl.base_kind(f.ty)) for f in fl] == [('Version', 'Check:U32'), ('Checksum', 'Bytes'), ('SeqNum', 'U32')]
        ver = [fold(c) for c in walk(fl[0].expr) if c[0] == 'agg' and c[1] == 'model::data::Value'] if fl else []
        good = good and ver and fold(ver[0][3][0])[1] == 1 and fl[0].endian == 'LE' and fl[2].endian == 'LE'
        ctx.check(good, 'R16.1', 'signature:layout', 'message signature = Version (constant 1, checked on read) | Checksum | SeqNum, little endian', sh.body.where(),
                  'message_signature_ex layout %s differs from MS-NLMP 2.2.2.9.1 (Version=1 checked, Checksum, SeqNum)' % [(f.key, f.kind) for f in fl])
        ck = fl[1].expr if len(fl) > 1 else ('unknown',)
        ok8 = False
        f_ = fold(ck)
        if has_call(ck, 'std::vec::from_elem'):
            c_ = [c for c in calls_in(ck, 'std::vec::from_elem') if c[0] == 'call']
            ok8 = bool(c_) and fold(c_[0][3][1])[1] == 8
        rng = [n for n in walk(ck) if n[0] == 'agg' and n[1] == 'std::ops::Range']
        if rng:
            ok8 = [fold(o)[1] for o in rng[0][3]] == [0, 8]
        ctx.check(ok8, 'R16.1', 'signature:checksum8:%d' % (1 if rng else 0), 'the Checksum field is exactly 8 bytes on this construction path', sh.body.where(),
                  'message_signature_ex builds a Checksum that is not 8 bytes')

    # ---- R16.2 / R16.4 gss_wrapex ---------------------------------------------------------------------------------
    w = ctx.body(WRAP)
    n_ok = 0
    for path, st in feasible_paths(w, P):
        if ret_kind(st.env.get(0)) != 'ok':
            continue
        n_ok += 1
        evs = [ev for ev in st.events if ev[0] in ('call', 'store')]
        pr = [ev for ev in evs if ev[0] == 'call' and ev[1].callee == PROCESS]
        mc = [ev for ev in evs if ev[0] == 'call' and ev[1].callee == 'nla::ntlm::mac']
        good = len(pr) == 1 and len(mc) == 1 and evs.index(pr[0]) < evs.index(mc[0])
        if good:
            good = self_field(resolve(st, pr[0][2][0])) == 'encrypt' and self_field(resolve(st, mc[0][2][0])) == 'encrypt' \
                and unwrap_cast(pr[0][3][1]) == ('param', 2) and unwrap_cast(mc[0][3][3]) == ('param', 2) \
                and self_field(resolve(st, mc[0][2][1])) == 'signing_key'
        ctx.check(good, 'R16.2', 'wrap:order', 'gss_wrapex: encrypt handle seals the data, then mac() signs the *plaintext* with signing_key using the same handle',
                  w.where(), 'gss_wrapex does not seal the data and then sign with the same RC4 handle (MS-NLMP 3.4.3: SEAL then SIGN with the same handle)')
        # output = signature || ciphertext
        pushes = path_calls(st, 'std::vec::Vec::<T, A>::push')
        out_ok = len(pushes) == 2 and has_call(resolve(st, pushes[0][2][1]), 'nla::ntlm::mac') \
            and any(c[0] == 'mutated' and c[1] == PROCESS for c in calls_in(resolve(st, pushes[1][2][1])))
        if not pushes:
            # the same two pieces concatenated as byte buffers (`[signature, ciphertext].concat()`) instead of through a trame
            v_ = strip(resolve(st, st.env.get(0)))
            parts = byte_parts(v_[3][0]) if v_[0] == 'agg' and v_[3] else []
            out_ok = len(parts) == 2 and has_call(parts[0], 'nla::ntlm::mac') and any(c[0] == 'mutated' and c[1] == PROCESS for c in calls_in(parts[1]))
        ctx.check(out_ok, 'R16.2', 'wrap:output', 'sealed message = signature || ciphertext', w.where(), 'gss_wrapex does not emit signature followed by ciphertext')
        # R16.4
        sq = mc and unwrap_cast(resolve(st, mc[0][2][2]))
        stores = [ev for ev in evs if ev[0] == 'store' and ev[2]['p'] and ev[2]['p'][-1].get('name') == 'seq_num']
        good = bool(mc) and sq[0] == 'field' and sq[2] == 'seq_num' and len(stores) == 1 and evs.index(stores[0]) > evs.index(mc[0])
        if good:
            e = fold(resolve(st, stores[0][3]))
            e = unwrap_cast(e)
            good = e[0] == 'bin' and e[1] == 'Add' and fold(e[3])[1] == 1 and unwrap_cast(e[2])[0] == 'field' and unwrap_cast(e[2])[2] == 'seq_num'
        ctx.check(good, 'R16.4', 'wrap:seq', 'mac() receives self.seq_num and the field is incremented by exactly 1 afterwards, once', w.where(),
                  'gss_wrapex does not use and then increment the sequence number exactly once per message')
    ctx.floor('R16.2', 'Ok paths of gss_wrapex', n_ok, 1)
    # the send counter belongs to the sealing direction: nothing but gss_wrapex (and the constructor) stores it
    writers = set()
    for k_, bd in P.bodies.items():
        for bi in range(bd.n):
            if bd.blocks[bi]['cleanup']:
                continue
            for stt in bd.blocks[bi]['stmts']:
                if stt['s'] == 'assign' and stt['place']['p'] and stt['place']['p'][-1].get('k') == 'field' and stt['place']['p'][-1].get('name') == 'seq_num' \
                        and 'NTLMv2SecurityInterface' in (stt['place']['p'][-1].get('owner') or ''):
                    writers.add(k_)
    ctx.check(writers <= {WRAP} and WRAP in writers, 'R16.4', 'seq:writers', 'the sequence number is stored only by gss_wrapex', '',
              'the send sequence number is also stored by %s: receiving a message must not change the number the next sealed message is signed with'
              % sorted(x.rsplit('::', 1)[-1] for x in writers - {WRAP}))
    nw = ctx.body(SI + '::new')
    init = None
    roles = None
    for bi in range(nw.n):
        for stt in nw.blocks[bi]['stmts']:
            if stt['s'] == 'assign' and stt['rv']['rv'] == 'agg' and stt['rv'].get('adt') == SI:
                rv = stt['rv']
                roles = {f: [o.param for o in origins(nw, op) if o.kind == 'param'] for f, op in zip(rv['fields'], rv['ops'])}
                init = op_const(rv['ops'][rv['fields'].index('seq_num')])
    ctx.check(init == 0, 'R16.4', 'new:seq0', 'a new security context starts at sequence number 0', nw.where(), 'NTLMv2SecurityInterface::new starts at sequence number %s' % init)
    ctx.check(roles is not None and roles.get('encrypt') == [1] and roles.get('decrypt') == [2] and roles.get('signing_key') == [3] and roles.get('verify_key') == [4],
              'R16.3', 'new:fields', 'new(encrypt, decrypt, signing_key, verify_key) stores each parameter in the field of the same name', nw.where(),
              'NTLMv2SecurityInterface::new wires its parameters to fields as %s' % roles)

    # mac: HMAC over seq || data with the signing key, first 8 bytes encrypted with the handle, seq in the signature
    mb = ctx.body('nla::ntlm::mac')
    for path, st in feasible_paths(mb, P):
        v = strip(st.env.get(0))
        if v[0] == 'unknown':
            continue
        hm = path_calls(st, 'nla::ntlm::hmac_md5')
        pr = path_calls(st, PROCESS)
        ms = path_calls(st, 'nla::ntlm::message_signature_ex')
        good = len(hm) == 1 and len(pr) == 1 and len(ms) == 1
        if good:
            key, data = resolve(st, hm[0][2][0]), resolve(st, hm[0][2][1])
            parts = byte_parts(data)
            order_ok = len(parts) == 2 and ('param', 3) in list(walk(parts[0])) and ('param', 4) in list(walk(parts[1])) \
                and ('param', 4) not in list(walk(parts[0]))
            le = any(n[0] == 'agg' and n[1] == 'model::data::Value' and n[2] == 'LE' for n in walk(data)) \
                or (bool(parts) and has_call(parts[0], re.compile(r'num::<impl u32>::to_le_bytes$')))
            inp = resolve(st, pr[0][2][1])
            rng = [n for n in walk(inp) if n[0] == 'agg' and n[1] == 'std::ops::Range']
            good = unwrap_cast(key) == ('param', 2) and order_ok and le and unwrap_cast(pr[0][3][0]) == ('param', 1) \
                and has_call(inp, 'nla::ntlm::hmac_md5') and rng and [fold(o)[1] for o in rng[0][3]] == [0, 8]
            sa = resolve(st, ms[0][2][1])
            good = good and ('param', 3) in list(walk(sa)) and any(c[0] == 'mutated' and c[1] == PROCESS for c in calls_in(resolve(st, ms[0][2][0])))
        ctx.check(good, 'R16.2', 'mac', 'mac = Version | RC4(handle, HMAC_MD5(signing_key, LE32(seq) || data)[0..8]) | seq', mb.where(),
                  'mac() does not compute the MS-NLMP 3.4.4.2 signature (HMAC over seq||message with the signing key, first 8 bytes sealed with the handle, seq appended)')
        break

    # unwrap: same handle (decrypt) on payload then checksum
    u = ctx.body(UNWRAP)
    n_ok = 0
    for path, st in feasible_paths(u, P):
        if ret_kind(st.env.get(0)) != 'ok':
            continue
        n_ok += 1
        pr = path_calls(st, PROCESS)
        good = len(pr) == 2 and all(self_field(resolve(st, p_[2][0])) == 'decrypt' for p_ in pr)
        if good:
            first_in, second_in = resolve(st, pr[0][2][1]), resolve(st, pr[1][2][1])
            strs2 = [c[2] for c in consts_in(second_in) if isinstance(c[2], str)]
            strs1 = [c[2] for c in consts_in(first_in) if isinstance(c[2], str)]
            good = any('"Checksum"' in s_ for s_ in strs2) and not any('"Checksum"' in s_ for s_ in strs1)
        ctx.check(good, 'R16.2', 'unwrap:order', 'gss_unwrapex: decrypt handle unseals the payload first, then the checksum (mirror of wrap)', u.where(),
                  'gss_unwrapex does not apply the decrypt handle to the payload and then to the checksum (the RC4 stream would be out of step with the peer)')
    ctx.floor('R16.2', 'Ok paths of gss_unwrapex', n_ok, 1)

    # ---- R16.3 key roles --------------------------------------------------------------------------------------------
    bs = ctx.body('<nla::ntlm::Ntlm as nla::sspi::AuthenticationProtocol>::build_security_interface')
    done = False
    for path, st in feasible_paths(bs, P):
        nn = path_calls(st, SI + '::new')
        if not nn:
            continue
        done = True
        args = [resolve(st, a) for a in nn[0][2]]

        def role(e):
            for c in calls_in(e, re.compile(r'^nla::ntlm::(sign_key|seal_key)$')):
                if c[0] == 'call':
                    return (c[1].rsplit('::', 1)[-1], bool(fold(c[3][1])[1]), any(n[0] == 'field' and n[2] == 'exported_session_key' for n in walk(c[3][0])))
            return None
        got = [role(a) for a in args]
        want = [('seal_key', True, True), ('seal_key', False, True), ('sign_key', True, True), ('sign_key', False, True)]
        rc4 = [has_call(args[i], 'nla::rc4::Rc4::new') for i in (0, 1)]
        ctx.check(got == want and all(rc4), 'R16.3', 'roles',
                  'encrypt=RC4(SEALKEY client->server), decrypt=RC4(SEALKEY server->client), signing=SIGNKEY client->server, verify=SIGNKEY server->client, all from exported_session_key',
                  where(bs, nn[0][1].block), 'build_security_interface wires the keys as %s (expected %s)' % (got, want))
        break
    ctx.check(done, 'R16.3', 'roles:found', 'build_security_interface constructs the security interface', bs.where())
    for fn in ('sign_key', 'seal_key'):
        b = ctx.body('nla::ntlm::' + fn)
        seen = set()
        for path, st in feasible_paths(b, P):
            v = strip(st.env.get(0))
            if v[0] == 'unknown':
                continue
            isc = [branch_truth(ev) for ev in path_branches(st) if strip(ev[2]) == ('param', 2)]
            md = path_calls(st, 'nla::ntlm::md5')
            if len(isc) != 1 or len(md) != 1:
                ctx.fail('R16.3', '%s:shape' % fn, '%s no longer hashes one constant selected by is_client' % fn, b.where())
                continue
            data = resolve(st, md[0][2][0])
            parts = byte_parts(data)
            consts = [p[2] for p in parts if p[0] == 'const' and isinstance(p[2], str) and 'magic constant' in p[2]]
            want = MAGIC[(fn, isc[0])]
            order_ok = len(parts) == 2 and parts[0] == ('param', 1) and parts[1][0] == 'const'
            seen.add(isc[0])
            ctx.check(len(consts) == 1 and want + '\\x00' in consts[0] and order_ok and ret_kind(v) == 'call:nla::ntlm::md5', 'R16.3', '%s:%s' % (fn, isc[0]),
                      '%s(is_client=%s) = MD5(exported_session_key || "%s\\0")' % (fn, isc[0], want), b.where(),
                      '%s(is_client=%s) hashes %s; MS-NLMP 3.4.5.%s requires key || "%s\\0"' % (fn, isc[0], consts, '2' if fn == 'sign_key' else '3', want))
        ctx.check(seen == {True, False}, 'R16.3', '%s:coverage' % fn, '%s distinguishes both directions' % fn, b.where())

    # ---- R16.7 / R16.8 gss_unwrapex is a function of (handle state, message): the ciphertext is read into a buffer created in this call, and the
    # only refusal it decides itself is the checksum mismatch --------------------------------------------------------------------------------
    u2 = ctx.body(UNWRAP)
    n_rd = n_err = 0
    for path, st in feasible_paths(u2, P):
        v = strip(st.env.get(0))
        if v[0] == 'unknown':
            continue
        for ev in path_calls(st, '<std::vec::Vec<u8> as model::data::Message>::read'):
            n_rd += 1
            recv = ev[2][0]
            # value of the receiver before the read: `Vec::new()` of this call (Vec<u8>::read fills an empty vector to the end of the stream, but
            # reads exactly len() bytes into a non-empty one)
            prev = strip(ev[3][0])         # (the arguments are recorded with the value they had when the call was made)
            fresh = prev[0] == 'call' and re.search(r'Vec::<T>::new$', prev[1]) is not None
            ctx.check(fresh, 'R16.7', 'unwrap:payload_buffer', 'the ciphertext is read into a vector created empty in this call', u2.where(),
                      'gss_unwrapex reads the ciphertext into a buffer that outlives the call (not a fresh Vec::new()): Vec<u8>::read fills an empty vector to the end '
                      'of the message but reads exactly len() bytes into a non-empty one, so from the second message on the payload length is the first message\'s')
        kinds_ = [n[2] for n in walk(resolve(st, v)) if n[0] == 'agg' and n[1] == 'model::error::RdpErrorKind']
        if ret_kind(v) == 'err' and kinds_ != ['InvalidCast']:        # (InvalidCast is the cast! macro on a field of the parsed signature: a parse failure)
            n_err += 1
            cmp_seen = any(strip(ev[2])[0] == 'call' and re.search(r'PartialEq.*::(ne|eq)$', strip(ev[2])[1]) for ev in path_branches(st))
            ctx.check(cmp_seen, 'R16.8', 'unwrap:refusal', 'gss_unwrapex refuses on its own only after the checksum comparison', u2.where(),
                      'gss_unwrapex returns an error of its own before the checksum comparison (a length / shape guard): a message that MS-NLMP allows (e.g. a sealed '
                      'empty message of exactly 16 bytes) is refused without passing through the RC4 handle, which also desynchronises every later message')
    ctx.floor('R16.7', 'payload reads in gss_unwrapex', n_rd, 1)
    ctx.floor('R16.8', 'explicit refusals of gss_unwrapex', n_err, 1)

    # ---- R16.5 RC4 index arithmetic modulo 256 only -------------------------------------------------------------------------
    n_rc4 = 0
    for k, b in P.bodies.items():
        if not k.startswith('nla::rc4::Rc4::'):
            continue
        n_rc4 += 1
        for bi in range(b.n):
            if b.blocks[bi]['cleanup']:
                continue
            for stt in b.blocks[bi]['stmts']:
                if stt['s'] == 'assign' and stt['rv']['rv'] == 'bin' and stt['rv']['op'] in ('Rem', 'Div'):
                    c = op_const(stt['rv']['r'])
                    if c is not None:
                        ctx.check(c == 256, 'R16.5', 'rc4:mod:%s' % k, '%s: constant modulus %d on an RC4 index' % (k.rsplit('::', 1)[-1], c), '%s:%d' % (b.file, stt['line']),
                                  '%s reduces an RC4 index modulo %d; the state has 256 entries (the key stream diverges after %d bytes)' % (k, c, c - 1))
    ctx.floor('R16.5', 'RC4 functions scanned', n_rc4, 3)
    # ---- R16.6 PRGA step order in Rc4::next: i advances, j advances by S[i], S[i] <-> S[j], then the output byte S[S[i]+S[j]] is read ---
    nx = ctx.body('nla::rc4::Rc4::next')
    n_nx = 0
    for path, st in feasible_paths(nx, P, limit=1000):
        evs = [e for e in st.events if e[0] in ('call', 'store')]
        pos = {}
        for idx, e in enumerate(evs):
            if e[0] == 'store' and e[2]['p'] and e[2]['p'][-1].get('name') in ('i', 'j'):
                pos.setdefault('store_' + e[2]['p'][-1]['name'], idx)
            elif e[0] == 'call' and e[1].callee.endswith('::swap'):
                pos.setdefault('swap', idx)
            elif e[0] == 'call' and len(e[2]) == 2 and all(strip(a)[0] == 'index' for a in e[2]):
                pos['out_index'] = idx          # S[i] + S[j]: index of the output byte
        rv = strip(resolve(st, st.env.get(0)))
        if rv[0] == 'unknown':
            continue
        n_nx += 1
        order_ok = all(k in pos for k in ('store_i', 'store_j', 'swap', 'out_index')) and pos['store_i'] < pos['store_j'] < pos['swap'] < pos['out_index']
        ctx.check(order_ok and rv[0] == 'index', 'R16.6', 'rc4:prga_order', 'Rc4::next: i += 1; j += S[i]; swap(S[i], S[j]); output S[S[i] + S[j]] in that order', nx.where(),
                  'Rc4::next does not perform the RC4 output step in the order i, j, swap, read (found %s): the key stream differs from RC4 for some keys, '
                  'so sealed messages and the wrapped session key are rejected by the peer' % sorted(pos.items(), key=lambda kv: kv[1]))
    ctx.floor('R16.6', 'paths of Rc4::next', n_nx, 1)
