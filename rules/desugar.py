"""Desugaring of closure-taking combinators into explicit control flow, before any rule runs.

`x.and_then(|v| f(v))`, `opt.map(|v| ..)`, `r.map_err(Error::from)`, `o.ok_or_else(|| ..)`, `o.unwrap_or_else(..)`, `o.map_or(d, |v| ..)`,
`it.try_for_each(|e| ..)`, `it.for_each(|e| ..)` are ordinary control flow written with a closure: a `match` on the Option/Result, a loop over
the iterator.  The rules are stated over the control-flow graph of the repository's functions, so a maintainer who replaces an explicit `match`
or `for` by the combinator (or the reverse) must not change what they see.  Each such call whose function argument is a closure created in the
same body (or a function item) is replaced by the blocks of its definition in the standard library:

    Result::and_then(x, f)     switch discr(x) { Ok: D = f((x as Ok).0) ; Err: D = Err((x as Err).0) }
    Iterator::try_for_each     head: o = next(it); switch discr(o) { None: D = Ok(()) ; Some: r = f((o as Some).0); switch discr(r) { Ok: goto head ; Err: D = r } }

and so on (table below); the call of the closure is then inlined like any helper (inline.py), its captured variables being the operands of the
closure aggregate.  Lazy adapters (`Iterator::map`, `filter`, ..) are left alone.  On the reference tree this rewrites the handful of `map_err`
calls of argument parsing and certificate reading and nothing else."""
import copy
import re

RES = 'std::result::Result'
OPT = 'std::option::Option'

# name regex -> (kind of receiver, template)
TABLE = [
    (re.compile(r'^std::result::Result::<T, E>::and_then$'), 'res', 'and_then'),
    (re.compile(r'^std::result::Result::<T, E>::map$'), 'res', 'map'),
    (re.compile(r'^std::result::Result::<T, E>::map_err$'), 'res', 'map_err'),
    (re.compile(r'^std::result::Result::<T, E>::or_else$'), 'res', 'or_else'),
    (re.compile(r'^std::result::Result::<T, E>::unwrap_or_else$'), 'res', 'unwrap_or_else'),
    (re.compile(r'^std::result::Result::<T, E>::map_or_else$'), 'res', 'map_or_else'),
    (re.compile(r'^std::option::Option::<T>::and_then$'), 'opt', 'and_then'),
    (re.compile(r'^std::option::Option::<T>::map$'), 'opt', 'map'),
    (re.compile(r'^std::option::Option::<T>::ok_or_else$'), 'opt', 'ok_or_else'),
    (re.compile(r'^std::option::Option::<T>::unwrap_or_else$'), 'opt', 'unwrap_or_else'),
    (re.compile(r'^std::option::Option::<T>::map_or$'), 'opt', 'map_or'),
    (re.compile(r'^std::option::Option::<T>::map_or_else$'), 'opt', 'map_or_else'),
    (re.compile(r'^std::option::Option::<T>::or_else$'), 'opt', 'or_else'),
    (re.compile(r'^std::iter::Iterator::try_for_each$|as std::iter::Iterator>::try_for_each$'), 'iter', 'try_for_each'),
    (re.compile(r'^std::iter::Iterator::for_each$|as std::iter::Iterator>::for_each$'), 'iter', 'for_each'),
    (re.compile(r'^std::iter::Iterator::fold$|as std::iter::Iterator>::fold$'), 'iter', 'fold'),
]


def _callable(prog, body, op):
    """('closure', key, local) for a closure aggregate assigned once to a plain local of this body; ('fn', operand) for a function item"""
    if not isinstance(op, dict):
        return None
    if op.get('k') == 'const' and 'fn' in op:
        return ('fn', op)
    if op.get('k') in ('move', 'copy') and not op['place']['p']:
        l = op['place']['l']
        ds = body.defs.get(l, [])
        if len(ds) == 1 and ds[0][0] == 'stmt' and ds[0][3]['rv']['rv'] == 'agg' and ds[0][3]['rv'].get('kind') == 'closure':
            path = ds[0][3]['rv']['closure']
            for key in (path, body.crate + '::' + path):
                cb = prog.bodies.get(key)
                if cb is not None and cb.kind == 'Closure':
                    return ('closure', key, l)
    return None


class _Builder:
    def __init__(self, nj, span, line, cleanup):
        self.nj = nj
        self.span = span
        self.line = line

    def local(self, ty):
        self.nj['locals'].append({'ty': ty or '?', 'name': None, 'int': None})
        return len(self.nj['locals']) - 1

    def block(self, stmts=None, term=None):
        self.nj['blocks'].append({'stmts': stmts or [], 'term': term or {'t': 'unreachable', 'span': self.span}, 'cleanup': False})
        return len(self.nj['blocks']) - 1

    def assign(self, l, rv):
        return {'s': 'assign', 'place': {'l': l, 'p': []} if isinstance(l, int) else l, 'rv': rv, 'line': self.line, 'exp': False}

    def goto(self, t):
        return {'t': 'goto', 'target': t, 'span': self.span}

    def switch(self, l, vals, targets, otherwise, ty='isize'):
        return {'t': 'switch', 'discr': {'k': 'move', 'place': {'l': l, 'p': []}}, 'discr_ty': ty, 'vals': vals, 'targets': targets,
                'otherwise': otherwise, 'span': self.span}

    def payload(self, x, variant, vi, ty, owner):
        return {'k': 'move', 'place': {'l': x, 'p': [{'k': 'downcast', 'variant': variant, 'vi': vi},
                                                      {'k': 'field', 'i': 0, 'name': '0', 'owner': owner + '::' + variant, 'ty': ty or '?'}]}}

    def agg(self, adt, variant, vi, ops):
        return {'rv': 'agg', 'kind': 'adt', 'adt': adt, 'variant': variant, 'vi': vi, 'args': [], 'fields': ['0'] if ops else [], 'ops': ops}

    def call(self, prog, fn, args, dest, target, orig):
        """call of a closure (to be inlined) or of a function item"""
        if fn[0] == 'closure':
            key, cl = fn[1], fn[2]
            cb = prog.bodies[key]
            env_ty = cb.locals[1]['ty'] if len(cb.locals) > 1 else ''
            pre = []
            if env_ty.startswith('&'):
                r = self.local(env_ty)
                pre.append(self.assign(r, {'rv': 'ref', 'mut': env_ty.startswith('&mut'), 'place': {'l': cl, 'p': []}}))
                env = {'k': 'move', 'place': {'l': r, 'p': []}}
            else:
                env = {'k': 'move', 'place': {'l': cl, 'p': []}}
            term = {'t': 'call', 'func': {'k': 'const', 'ty': '', 'fn': key, 'fn_args': [], 's': key}, 'callee': key, 'callee_args': [],
                    'callee_unsafe': False, 'callee_local': True, 'resolved': key, 'resolved_kind': 'Item', 'resolved_args': [],
                    'resolved_local': True, 'args': [env] + args, 'arg_tys': [env_ty] + ['?'] * len(args), 'dest': {'l': dest, 'p': []},
                    'target': target, 'unwind': None, 'span': orig['span'], 'fn_span': orig.get('fn_span', orig['span']), 'synthetic': True}
            return pre, term
        op = fn[1]
        term = {'t': 'call', 'func': op, 'callee': op['fn'], 'callee_args': op.get('fn_args', []), 'callee_unsafe': False, 'callee_local': False,
                'resolved': op['fn'], 'resolved_kind': 'Item', 'resolved_args': op.get('fn_args', []), 'resolved_local': False,
                'args': args, 'arg_tys': ['?'] * len(args), 'dest': {'l': dest, 'p': []}, 'target': target, 'unwind': None,
                'span': orig['span'], 'fn_span': orig.get('fn_span', orig['span'])}
        return [], term


def desugar_body(prog, body):
    """new body json, or None when the body has no desugarable call"""
    j = body.j
    todo = []
    for bi, bl in enumerate(j['blocks']):
        t = bl['term']
        if t['t'] != 'call' or bl['cleanup'] or t['dest']['p'] or t.get('target') is None:
            continue
        name = t.get('resolved') or t.get('callee') or ''
        for rx, recv, tmpl in TABLE:
            if rx.search(name):
                fns = [_callable(prog, body, a) for a in t['args'][1:]]
                need = {'map_or_else': 2, 'map_or': 2, 'fold': 2}.get(tmpl, 1)
                if len(t['args']) != 1 + need:
                    break
                if tmpl in ('map_or', 'fold'):
                    if fns[1] is None:
                        break
                elif any(f is None for f in fns):
                    break
                if recv == 'iter' and not (t['args'][0].get('k') in ('move', 'copy') and not t['args'][0]['place']['p']):
                    break
                todo.append((bi, recv, tmpl, fns))
                break
    if not todo:
        return None
    nj = dict(j)
    nj['locals'] = list(j['locals'])
    nj['blocks'] = [dict(b) for b in j['blocks']]
    for bi, recv, tmpl, fns in todo:
        blk = nj['blocks'][bi]
        t = blk['term']
        B = _Builder(nj, t['span'], t['span'].get('line', 0), False)
        D = t['dest']['l']
        T = t['target']
        ga = t.get('resolved_args') or t.get('callee_args') or []
        stmts = list(blk['stmts'])
        a0 = t['args'][0]
        if recv in ('res', 'opt'):
            # the receiver in a local
            if a0.get('k') in ('move', 'copy') and not a0['place']['p']:
                x = a0['place']['l']
            else:
                x = B.local(t.get('arg_tys', ['?'])[0])
                stmts.append(B.assign(x, {'rv': 'use', 'op': a0}))
            d = B.local('isize')
            stmts.append(B.assign(d, {'rv': 'discr', 'place': {'l': x, 'p': []}, 'ty': t.get('arg_tys', ['?'])[0]}))
            if recv == 'res':
                tT, tE = (ga + ['?', '?'])[0], (ga + ['?', '?'])[1]
                good = lambda: B.payload(x, 'Ok', 0, tT, RES)        # noqa: E731
                bad = lambda: B.payload(x, 'Err', 1, tE, RES)         # noqa: E731
            else:
                tT = (ga + ['?'])[0]
                good = lambda: B.payload(x, 'Some', 1, tT, OPT)       # noqa: E731
                bad = None

            def arm(fn, args, wrap=None):
                """block computing D from a call of fn(args) [wrapped in a variant] then going to T; with fn None: D = wrap(args[0]) / args[0]"""
                if fn is None:
                    rv = {'rv': 'use', 'op': args[0]} if wrap is None else B.agg(wrap[0], wrap[1], wrap[2], args)
                    return B.block([B.assign(D, rv)], B.goto(T))
                if wrap is None:
                    b2 = B.block()
                    pre, term = B.call(prog, fn, args, D, T, t)
                    nj['blocks'][b2] = {'stmts': pre, 'term': term, 'cleanup': False}
                    return b2
                r = B.local('?')
                tail = B.block([B.assign(D, B.agg(wrap[0], wrap[1], wrap[2], [{'k': 'move', 'place': {'l': r, 'p': []}}]))], B.goto(T))
                b2 = B.block()
                pre, term = B.call(prog, fn, args, r, tail, t)
                nj['blocks'][b2] = {'stmts': pre, 'term': term, 'cleanup': False}
                return b2
            f = fns[0]
            if recv == 'res':
                ok_arm, err_arm = {
                    'and_then': lambda: (arm(f, [good()]), arm(None, [bad()], (RES, 'Err', 1))),
                    'map': lambda: (arm(f, [good()], (RES, 'Ok', 0)), arm(None, [bad()], (RES, 'Err', 1))),
                    'map_err': lambda: (arm(None, [good()], (RES, 'Ok', 0)), arm(f, [bad()], (RES, 'Err', 1))),
                    'or_else': lambda: (arm(None, [good()], (RES, 'Ok', 0)), arm(f, [bad()])),
                    'unwrap_or_else': lambda: (arm(None, [good()]), arm(f, [bad()])),
                    'map_or_else': lambda: (arm(fns[1], [good()]), arm(fns[0], [bad()])),
                }[tmpl]()
                term = B.switch(d, [0], [ok_arm], err_arm)
            else:
                some_arm, none_arm = {
                    'and_then': lambda: (arm(f, [good()]), arm(None, [], (OPT, 'None', 0))),
                    'map': lambda: (arm(f, [good()], (OPT, 'Some', 1)), arm(None, [], (OPT, 'None', 0))),
                    'ok_or_else': lambda: (arm(None, [good()], (RES, 'Ok', 0)), arm(f, [], (RES, 'Err', 1))),
                    'unwrap_or_else': lambda: (arm(None, [good()]), arm(f, [])),
                    'or_else': lambda: (arm(None, [good()], (OPT, 'Some', 1)), arm(f, [])),
                    'map_or': lambda: (arm(fns[1], [good()]), arm(None, [t['args'][1]])),
                    'map_or_else': lambda: (arm(fns[1], [good()]), arm(fns[0], [])),
                }[tmpl]()
                term = B.switch(d, [1], [some_arm], none_arm)
            nj['blocks'][bi] = {'stmts': stmts, 'term': term, 'cleanup': blk['cleanup']}
        else:
            it = a0['place']['l']
            it_ty = (t.get('arg_tys') or ['?'])[0]
            self_ty = (ga + ['?'])[0]
            by_ref = it_ty.startswith('&mut')
            elem_ty = '?'
            o = B.local('std::option::Option<%s>' % elem_ty)
            d = B.local('isize')
            x = B.local(elem_ty)
            head = B.block()
            pre = []
            if by_ref:
                recv_op = {'k': 'copy', 'place': {'l': it, 'p': []}}
            else:
                r = B.local('&mut ' + it_ty)
                pre.append(B.assign(r, {'rv': 'ref', 'mut': True, 'place': {'l': it, 'p': []}}))
                recv_op = {'k': 'move', 'place': {'l': r, 'p': []}}
            nxt = '<%s as std::iter::Iterator>::next' % self_ty
            test = B.block()
            next_term = {'t': 'call', 'func': {'k': 'const', 'ty': '', 'fn': nxt, 'fn_args': [], 's': nxt}, 'callee': 'std::iter::Iterator::next',
                         'callee_args': [self_ty], 'callee_unsafe': False, 'callee_local': False, 'resolved': nxt, 'resolved_kind': 'Item',
                         'resolved_args': [], 'resolved_local': False, 'args': [recv_op], 'arg_tys': ['&mut ' + self_ty], 'dest': {'l': o, 'p': []},
                         'target': test, 'unwind': None, 'span': t['span'], 'fn_span': t.get('fn_span', t['span'])}
            nj['blocks'][head] = {'stmts': pre, 'term': next_term, 'cleanup': False}
            if tmpl == 'fold':
                # acc = init; loop { match it.next() { None => break acc, Some(x) => acc = f(acc, x) } }
                acc = B.local((ga + ['?', '?'])[1])
                stmts.append(B.assign(acc, {'rv': 'use', 'op': t['args'][1]}))
                done = B.block([B.assign(D, {'rv': 'use', 'op': {'k': 'move', 'place': {'l': acc, 'p': []}}})], B.goto(T))
                nacc = B.local((ga + ['?', '?'])[1])
                back = B.block([B.assign(acc, {'rv': 'use', 'op': {'k': 'move', 'place': {'l': nacc, 'p': []}}})], B.goto(head))
                bodyb = B.block()
                pre2, term2 = B.call(prog, fns[1], [{'k': 'copy', 'place': {'l': acc, 'p': []}}, {'k': 'move', 'place': {'l': x, 'p': []}}], nacc, back, t)
            elif tmpl == 'try_for_each':
                unit = {'k': 'const', 'ty': '()', 'val': None, 's': '()'}
                done = B.block([B.assign(D, B.agg(RES, 'Ok', 0, [unit]))], B.goto(T))
                r_ = B.local((ga + ['?', '?', '?'])[2])
                d2 = B.local('isize')
                brk = B.block([B.assign(D, {'rv': 'use', 'op': {'k': 'move', 'place': {'l': r_, 'p': []}}})], B.goto(T))
                after = B.block([B.assign(d2, {'rv': 'discr', 'place': {'l': r_, 'p': []}, 'ty': (ga + ['?', '?', '?'])[2]})],
                                B.switch(d2, [0], [head], brk))
                bodyb = B.block()
                pre2, term2 = B.call(prog, fns[0], [{'k': 'move', 'place': {'l': x, 'p': []}}], r_, after, t)
            else:
                done = B.block([], B.goto(T))
                r_ = B.local('()')
                bodyb = B.block()
                pre2, term2 = B.call(prog, fns[0], [{'k': 'move', 'place': {'l': x, 'p': []}}], r_, head, t)
            nj['blocks'][bodyb] = {'stmts': [B.assign(x, {'rv': 'use', 'op': B.payload(o, 'Some', 1, elem_ty, OPT)})] + pre2, 'term': term2, 'cleanup': False}
            nj['blocks'][test] = {'stmts': [B.assign(d, {'rv': 'discr', 'place': {'l': o, 'p': []}, 'ty': 'std::option::Option<%s>' % elem_ty})],
                                  'term': B.switch(d, [0, 1], [done, bodyb], B.block()), 'cleanup': False}
            if (ga + ['?', '?', '?'])[2].startswith(RES) or tmpl in ('for_each', 'fold'):
                nj['blocks'][bi] = {'stmts': stmts, 'term': B.goto(head), 'cleanup': blk['cleanup']}
            else:
                # try_for_each with a residual type other than Result: leave the call alone (the appended blocks stay unreachable)
                nj['blocks'][bi] = blk
    return nj
