"""C02 - negotiated transport security is honoured; no downgrade (DESIGN.md 4/C02)."""
from common import *

META = {
    'level': 'other',
    'explanation': 'Path-complete static analysis of the security negotiation on the MIR of the current tree. Every feasible '
                   'entry->return path of x224::Client::connect, read_connection_confirm, tpkt start_ssl/start_nla, '
                   'Link::start_ssl and Connector::connect is enumerated; on each Ok path the rules require (R02.1) a TLS '
                   'upgrade whose result is the transport of the returned client, matching the selected protocol, (R02.2) '
                   'the bit test selected & offered != 0 against the offered mask parameter, (R02.3) the selected protocol is validated on all 32 bits (no narrowing before the enum conversion) and only a negotiation '
                   'response on a slow-path payload yields a protocol, (R02.4) nothing but the connection request is '
                   'written before TLS and CredSSP/MCS/Client Info are only reachable after it, (R02.5) the '
                   'certificate-check flag reaches danger_accept_invalid_certs negated and position-exact from '
                   'Connector::check_certificate.',
    'assumptions': ['native_tls::TlsConnector::connect returns Ok only after a completed handshake honouring '
                    'danger_accept_invalid_certs (crate contract)',
                    'dyn AuthenticationProtocol methods do not write to the link (they have no handle on it)'],
    'trusted_base': ['rustc nightly MIR construction', 'mirfacts exporter', 'rules/c02.py, sym.py, facts.py'],
}

X_CONNECT = 'core::x224::Client::<S>::connect'
X_CONFIRM = 'core::x224::Client::<S>::read_connection_confirm'
X_REQ = 'core::x224::Client::<S>::write_connection_request'
X_NEW = 'core::x224::Client::<S>::new'
T_SSL = 'core::tpkt::Client::<S>::start_ssl'
T_NLA = 'core::tpkt::Client::<S>::start_nla'
L_SSL = 'model::link::Link::<S>::start_ssl'
CSSP = 'nla::cssp::cssp_connect'
CONNECTOR = 'core::client::Connector::connect'
PROTOCOLS = 'core::x224::Protocols'


def writers(P):
    """W: every function from which a transport write is reachable (DESIGN.md A.8)"""
    roots = [k for k in P.bodies if re.match(r'^model::link::Stream::<S>::write(_all)?$', k)]
    W = set(roots)
    changed = True
    while changed:
        changed = False
        for k in list(W):
            for c in P.callers.get(k, []):
                ck = P.key_of(c.body)
                if ck not in W:
                    W.add(ck)
                    changed = True
    return W


def single_param_origin(body, op):
    """the parameter index an operand is an unmodified copy of, else None"""
    os_ = origins(body, op)
    if len(os_) == 1 and os_[0].kind == 'param' and not os_[0].path:
        return os_[0].param
    return None


def is_bittest(e, sel_pred, mask):
    """e is Eq/Ne(BitAnd(sel, mask), 0) -> 'eq'/'ne'"""
    e = fold(e)
    if e[0] == 'bin' and e[1] in ('Eq', 'Ne'):
        for x, y in ((e[2], e[3]), (e[3], e[2])):
            y = fold(y)
            x = unwrap_cast(x)
            if y[0] == 'const' and y[1] == 0 and x[0] == 'bin' and x[1] == 'BitAnd':
                for p, q in ((x[2], x[3]), (x[3], x[2])):
                    if sel_pred(p) and unwrap_cast(q) == mask:
                        return 'eq' if e[1] == 'Eq' else 'ne'
    return None


def run(ctx):
    P = ctx.prog
    W = writers(P)
    ctx.floor('A8', 'functions from which a transport write is reachable (set W)', len(W), 20)
    disc = dict(P.enum_variants(PROTOCOLS))
    ctx.check(disc.get('ProtocolRDP') == 0 and disc.get('ProtocolSSL') == 1 and disc.get('ProtocolHybrid') == 2,
              'R02.1', 'protocols:discr', 'Protocols discriminants are the MS-RDPBCGR values RDP=0, SSL=1, HYBRID=2', '',
              'Protocols enum discriminants differ from the negotiation values: %s' % disc)

    # ---- x224::Client::connect ---------------------------------------------------------------
    xc = ctx.body(X_CONNECT)
    n_ok = 0
    arms = set()
    for path, st in feasible_paths(xc, P):
        rk = ret_kind(st.env.get(0))
        calls = [ev for ev in st.events if ev[0] == 'call']
        tls = [ev for ev in calls if ev[1].callee in (T_SSL, T_NLA)]
        confirm = [ev for ev in calls if ev[1].callee == X_CONFIRM]
        if rk != 'ok':
            continue
        n_ok += 1
        okv = strip(st.env.get(0))
        client = unwrap_cast(okv[3][0])
        key = 'connect:ok:%s' % ('+'.join(ev[1].callee.rsplit('::', 1)[-1] for ev in tls) or 'notls')
        # R02.1 must pass through TLS, and the returned client's transport is that call's Ok payload
        good = len(tls) == 1 and client[0] == 'call' and client[1] == X_NEW
        if good:
            tr = unwrap_cast(client[3][0])
            good = tr[0] == 'call' and tr[2] == tls[0][1].block
        ctx.check(good, 'R02.1', key,
                  'Ok path via %s: the returned client runs on the transport produced by that TLS upgrade'
                  % (tls[0][1].callee.rsplit('::', 1)[-1] if tls else '?'),
                  where(xc, tls[0][1].block) if tls else xc.where(),
                  'x224::Client::connect has an Ok path that does not go through start_ssl/start_nla (or returns a client on '
                  'another transport): the connection would continue without TLS [blocks %s]' % path[:12])
        if not (tls and confirm):
            continue
        # selected protocol value = Ok payload of read_connection_confirm on this path
        cblock = confirm[-1][1].block

        def is_sel(e, cblock=cblock):
            e = unwrap_cast(e)
            if e[0] == 'discr':
                e = unwrap_cast(e[1])
            return e[0] == 'call' and e[1] == X_CONFIRM and e[2] == cblock
        # R02.2 offered-mask bit test on the path, surviving edge = "some offered bit selected"
        guarded = False
        tls_at = st.events.index(tls[0])
        for br in path_branches(st):
            z = is_bittest(br[2], is_sel, ('param', 2))
            # ... and it is established *before* the transport is upgraded (the TLS handshake and CredSSP run inside start_ssl / start_nla:
            # a test placed after them lets a protocol that was not offered be negotiated first)
            if z and ((z == 'ne') == branch_truth(br)) and st.events.index(br) < tls_at:
                guarded = True
        ctx.check(guarded, 'R02.2', key + ':mask',
                  'Ok path via %s: selected & security_protocols != 0 was established on the path (selection is among the offered protocols; '
                  'PROTOCOL_RDP=0 can never pass)' % tls[0][1].callee.rsplit('::', 1)[-1], where(xc, cblock),
                  'x224::Client::connect accepts the server-selected protocol without testing it against the offered mask '
                  '(selected & security_protocols): a protocol that was not offered - including a downgrade - is accepted')
        # arm <-> call <-> recorded protocol agreement
        armv = None
        for br in path_branches(st):
            d = strip(br[2])
            if d[0] == 'discr' and is_sel(d[1]) and br[3] is not None:
                armv = br[3]
        want = {1: (T_SSL, 'ProtocolSSL'), 2: (T_NLA, 'ProtocolHybrid')}
        rec = unwrap_cast(client[3][1]) if client[0] == 'call' and len(client[3]) > 1 else ('unknown',)
        recname = rec[2] if rec[0] == 'agg' else None
        if recname is None and is_sel(rec) and armv is not None:
            # the client records the selected value itself (`Client::new(transport, selected_protocol)` after the match): on this path it is the
            # value of the arm taken
            recname = {d_: n_ for n_, d_ in P.enum_variants('core::x224::Protocols')}.get(armv)
        arms.add(armv)
        ctx.check(armv in want and tls[0][1].callee == want[armv][0] and recname == want[armv][1], 'R02.1', key + ':arm',
                  'selected value %s dispatches to %s and is recorded as %s' % (armv, tls[0][1].callee.rsplit('::', 1)[-1], recname),
                  where(xc, tls[0][1].block),
                  'x224::Client::connect: selected protocol value %s is handled by %s and recorded as %s (expected SSL=1 -> start_ssl, '
                  'HYBRID=2 -> start_nla)' % (armv, tls[0][1].callee.rsplit('::', 1)[-1], recname))
        # R02.4a nothing in W before TLS except the connection request / confirm read
        before = []
        for ev in calls:
            if ev[1].block == tls[0][1].block:
                break
            k = P.key_of(P.bodies[ev[1].callee]) if ev[1].callee in P.bodies else ev[1].callee
            if k in W and ev[1].callee not in (X_REQ,):
                before.append(ev[1].callee)
        ctx.check(not before, 'R02.4', key + ':prewrite',
                  'only the connection request is written before the TLS upgrade', xc.where(),
                  'x224::Client::connect writes to the raw transport before TLS through %s' % before)
        # R02.5 certificate flag forwarded unchanged (parameter 3) to the upgrade
        cert = single_param_origin(xc, tls[0][1].args[1])
        ctx.check(cert == 3, 'R02.5', key + ':cert',
                  '%s receives check_certificate (parameter 3) unchanged' % tls[0][1].callee.rsplit('::', 1)[-1],
                  where(xc, tls[0][1].block),
                  'x224::Client::connect passes %s instead of its check_certificate parameter to %s'
                  % ('parameter %s' % cert if cert else 'a computed value', tls[0][1].callee))
    ctx.floor('R02.1', 'Ok paths of x224::Client::connect', n_ok, 2)
    ctx.check({1, 2} <= arms, 'R02.1', 'connect:arms', 'both offered protocols (SSL, HYBRID) have an accepting arm', xc.where())
    # the connection request carries no credential source
    for c in xc.calls_to(X_REQ):
        srcs = set()
        for a in c.args:
            for o in origins(xc, a):
                if o.kind == 'param':
                    srcs.add(o.param)
        ctx.check(4 not in srcs, 'R02.4', 'connect:request_args',
                  'write_connection_request arguments derive from parameters %s (not from the authentication protocol)' % sorted(srcs),
                  c.where(), 'the connection request is built from the authentication protocol object')

    # ---- R02.2b what the reply is checked against is what was offered on the wire: the mask reaches the request unchanged -------------
    import dsl

    def pure_param(e, param):
        nodes = list(walk(e))
        if not any(n == ('param', param) for n in nodes):
            return False
        for n in nodes:
            if n[0] in ('bin', 'un', 'unknown', 'mutated', 'index', 'upd'):
                return False
            if n[0] == 'param' and n[1] != param:
                return False
            if n[0] == 'call' and not re.search(r'Option::<T>::unwrap_or$', n[1]):
                return False
        return True
    chain = ((X_CONNECT.rsplit('::', 1)[0] + '::write_connection_request', 'core::x224::x224_connection_pdu', 2, 2, 'security_protocols'),
             ('core::x224::x224_connection_pdu', 'core::x224::rdp_neg_req', 1, 3, 'protocols'))
    for fn, callee, argi, parami, what in chain:
        fb = ctx.body(fn)
        n_c = 0
        for path, st in feasible_paths(fb, P, limit=20000):
            for ev in path_calls(st, [callee]):
                n_c += 1
                a = resolve(st, ev[2][argi])
                ctx.check(pure_param(a, parami), 'R02.2', 'offer:%s' % fn.rsplit('::', 1)[-1],
                          '%s hands its %s parameter to %s unchanged' % (fn.rsplit('::', 1)[-1], what, callee.rsplit('::', 1)[-1]), fb.where(),
                          '%s modifies the offered protocol mask before it is written into the connection request (%s): the reply is then checked against '
                          'protocols that were never offered on the wire' % (fn, show(strip(a))[:80]))
        ctx.floor('R02.2', 'calls of %s in %s' % (callee.rsplit('::', 1)[-1], fn.rsplit('::', 1)[-1]), n_c, 1)
    n_f = 0
    for sh, fl in dsl.returned_components(P, 'core::x224::rdp_neg_req'):
        f = [x for x in fl if x.key == 'result']
        n_f += 1
        ctx.check(bool(f) and pure_param(f[0].expr, 2), 'R02.2', 'offer:field', 'the requestedProtocols field of the negotiation request is the offered mask itself',
                  sh.body.where(), 'rdp_neg_req does not write its protocol parameter unchanged into the requestedProtocols field')
    ctx.floor('R02.2', 'shapes of rdp_neg_req', n_f, 1)

    # ---- R02.3 read_connection_confirm -------------------------------------------------------
    rc = ctx.body(X_CONFIRM)
    n_ok = 0
    neg = dict(P.enum_variants('core::x224::NegotiationType'))
    for path, st in feasible_paths(rc, P, limit=100000):
        if ret_kind(st.env.get(0)) == 'ok':
            # explicit Ok(..) constructed here
            pass
        v = strip(st.env.get(0))
        # the function returns Ok(Protocols::try_from(..)?) : an Ok aggregate
        if not (v[0] == 'agg' and v[1] == 'std::result::Result' and v[2] == 'Ok'):
            continue
        n_ok += 1
        ntype = None
        raw = None
        possible = set(neg.values())
        raw_possible = {0, 1}
        for br in path_branches(st):
            d = strip(br[2])
            if d[0] == 'discr':
                x = unwrap_cast(d[1])
                vals = rc.blocks[br[1]]['term'].get('vals', [])
                nv = set(neg.values())
                if x[0] == 'call' and 'NegotiationType as std::convert::TryFrom' in x[1] and vals and set(vals) <= nv:
                    # a positive arm fixes the kind, the otherwise edge excludes the tested kinds (if let .. / match with a fall-through)
                    possible = ({br[3]} & possible) if br[3] is not None else (possible - set(vals))
                if x[0] == 'call' and x[1] == 'core::tpkt::Client::<S>::read' and br[3] is not None:
                    raw_possible = {br[3]}
        if len(possible) == 1:
            ntype = list(possible)[0]
        if len(raw_possible) == 1:
            raw = list(raw_possible)[0]
        payload = unwrap_cast(v[3][0])
        from_result = payload[0] == 'call' and 'Protocols as std::convert::TryFrom' in payload[1]
        ctx.check(ntype == neg.get('TypeRDPNegRsp') and raw == 0 and from_result, 'R02.3', 'confirm:ok',
                  'a selected protocol is produced only for a negotiation *response* (type 2) on a slow-path payload, via Protocols::try_from',
                  rc.where(),
                  'read_connection_confirm yields Ok on a path where the negotiation type is %s / payload kind %s / value source %s '
                  '(failure, echoed request or fast-path replies must be errors)' % (ntype, raw, show(payload)[:60]))
        # the whole 32-bit selectedProtocol field is validated: no narrowing on the way into the enum conversion
        if from_result:
            arg = payload[3][0] if payload[3] else ('unknown', '')
            narrow = [n for n in walk(arg) if n[0] == 'cast' and re.match(r'^[ui](8|16)$', n[2] or '')]
            src32 = any(n[0] == 'call' and n[1].endswith('Message::visit') or (n[0] == 'variant' and n[2] == 'U32') for n in walk(arg))
            tf32 = 'TryFrom<u32>' in payload[1]
            ctx.check(not narrow and tf32, 'R02.3', 'confirm:width',
                      'the selected protocol is validated on all 32 bits of the selectedProtocol field (no narrowing before Protocols::try_from)',
                      rc.where(),
                      'read_connection_confirm narrows the 32-bit selectedProtocol field (%s) before validating it: a selection such as 0x00000101 is '
                      'taken for an offered protocol' % ('cast to ' + narrow[0][2] if narrow else payload[1].split(' as ')[-1]))
    ctx.floor('R02.3', 'Ok paths of read_connection_confirm', n_ok, 1)

    # ---- R02.4b/R02.5 tpkt::Client::start_ssl / start_nla / Link::start_ssl --------------------
    ts = ctx.body(T_SSL)
    import inline
    tn = inline.force(P, ctx.body(T_NLA), [T_SSL, 'core::tpkt::Client::<S>::new'])        # start_nla may reuse its sibling start_ssl for the TLS upgrade
    for body, name in ((ts, 'start_ssl'), (tn, 'start_nla')):
        sites = body.calls_to(L_SSL)
        ctx.check(len(sites) == 1 and single_param_origin(body, sites[0].args[1]) == 2, 'R02.5', 'tpkt_%s:cert' % name,
                  'tpkt::Client::%s forwards its check_certificate parameter (2) to Link::start_ssl' % name,
                  sites[0].where() if sites else body.where(),
                  'tpkt::Client::%s does not forward its check_certificate parameter to Link::start_ssl (got %s)'
                  % (name, [single_param_origin(body, s.args[1]) for s in sites]))
    n = 0
    for path, st in feasible_paths(tn, P):
        cs = path_calls(st, CSSP)
        ssl = path_calls(st, L_SSL)
        rk = ret_kind(st.env.get(0))
        if cs:
            n += 1
            link = object_of(st, cs[0][2][0])
            ctx.check(len(ssl) == 1 and link[0] == 'call' and link[1] == L_SSL and link[2] == ssl[0][1].block, 'R02.4', 'start_nla:link',
                      'CredSSP runs on the link returned by Link::start_ssl (after its ? succeeded)', where(tn, cs[0][1].block),
                      'tpkt::Client::start_nla runs cssp_connect on a link that is not the result of Link::start_ssl')
        if rk == 'ok':
            ctx.check(bool(cs) and bool(ssl), 'R02.4', 'start_nla:ok', 'start_nla returns Ok only after TLS and CredSSP', tn.where(),
                      'tpkt::Client::start_nla has an Ok path without TLS upgrade or without CredSSP')
    ctx.floor('R02.4', 'paths of start_nla reaching cssp_connect', n, 1)

    ls = ctx.body(L_SSL)
    da = ls.calls_to('native_tls::TlsConnectorBuilder::danger_accept_invalid_certs')
    good = False
    if len(da) == 1:
        # argument = Not(param 2)
        rv_ = chase_def(ls, da[0].args[1])
        if rv_ is not None and rv_['rv'] == 'un' and rv_['op'] == 'Not' and single_param_origin(ls, rv_['x']) == 2:
            good = True
    ctx.check(good, 'R02.5', 'link_start_ssl:accept_invalid',
              'danger_accept_invalid_certs receives !check_certificate', da[0].where() if da else ls.where(),
              'Link::start_ssl does not pass the negation of its check_certificate parameter to danger_accept_invalid_certs')
    n_ok = 0
    for path, st in feasible_paths(ls, P):
        if ret_kind(st.env.get(0)) != 'ok':
            continue
        n_ok += 1
        v = strip(st.env.get(0))
        lk = unwrap_cast(v[3][0])
        good = lk[0] == 'call' and lk[1] == 'model::link::Link::<S>::new'
        if good:
            s_ = unwrap_cast(lk[3][0])
            good = s_[0] == 'agg' and s_[2] == 'Ssl' and unwrap_cast(s_[3][0])[0] == 'call' \
                and unwrap_cast(s_[3][0])[1] == 'native_tls::TlsConnector::connect'
            conn = path_calls(st, 'native_tls::TlsConnector::connect')
            builds = path_calls(st, 'native_tls::TlsConnectorBuilder::build')
            das = path_calls(st, 'native_tls::TlsConnectorBuilder::danger_accept_invalid_certs')
            good = good and len(conn) == 1 and len(builds) == 1 and len(das) == 1 and das[0][1].block < builds[0][1].block
        ctx.check(good, 'R02.1', 'link_start_ssl:ok',
                  'Link::start_ssl returns Ok only with Stream::Ssl(connector.connect(..)?) built after the certificate policy was set',
                  ls.where(), 'Link::start_ssl has an Ok path that does not return a link over a completed TLS handshake')
    ctx.floor('R02.1', 'Ok paths of Link::start_ssl', n_ok, 1)

    # ---- Connector::connect: order and certificate flag -----------------------------------------
    cc = ctx.body(CONNECTOR)
    xs = cc.calls_to(X_CONNECT)
    ctx.check(len(xs) == 1, 'R02.4', 'connector:x224', 'Connector::connect negotiates security exactly once', cc.where())
    if xs:
        o = origins(cc, xs[0].args[2])
        good = len(o) == 1 and o[0].kind == 'param' and o[0].param == 1 and o[0].path == ('check_certificate',)
        ctx.check(good, 'R02.5', 'connector:cert',
                  'x224::Client::connect receives Connector::check_certificate in the check_certificate position', xs[0].where(),
                  'Connector::connect passes %s in the check_certificate position of x224::Client::connect' % o)
        for tgt in ('core::mcs::Client::<S>::connect', 'core::sec::connect', 'core::mcs::Client::<S>::new'):
            for c in cc.calls_to(tgt):
                # dominated by the Continue edge of the ? on x224 connect
                edges = try_continue_edges(cc, xs[0])
                ctx.check(bool(edges) and cc.dominated_by_edges(c.block, edges), 'R02.4', 'connector:after:%s' % tgt,
                          '%s is reachable only after x224::Client::connect(..)? succeeded (TLS established)' % tgt.rsplit('::', 2)[-2:],
                          c.where(), 'Connector::connect can reach %s without a successful security negotiation' % tgt)
    ctx.floor('R02.4', 'credential-bearing calls in Connector::connect (mcs connect and at least one sec::connect)',
              min(len(cc.calls_to('core::sec::connect')), 1) + min(len(cc.calls_to('core::mcs::Client::<S>::connect')), 1), 2)


def object_of(st, e):
    for _ in range(30):
        if e is None:
            return ('unknown',)
        if e[0] == 'cast':
            e = e[1]
        elif e[0] == 'refl':
            e = st.env.get(e[1])
        elif e[0] == 'via':
            e = e[2]
        elif e[0] in ('ref', 'deref', 'refm'):
            e = e[1]
        elif e[0] == 'field' and e[1][0] == 'variant' and e[1][2] in ('Continue', 'Ok', 'Some'):
            e = e[1][1]
        elif e[0] == 'mutated':
            e = e[3]
        elif e[0] == 'agg' and e[1] in ('std::result::Result', 'std::option::Option') and e[2] in ('Ok', 'Some') and len(e[3]) == 1:
            e = e[3][0]
        elif e[0] == 'variant':
            e = e[1]
        elif e[0] == 'field' and strip(e[1])[0] == 'agg' and len(strip(e[1])) > 4 and e[2] in strip(e[1])[4]:
            a = strip(e[1])
            e = a[3][a[4].index(e[2])]
        elif e[0] == 'field' and e[1][0] in ('variant', 'via', 'agg', 'field') and object_of(st, e[1]) != e[1] and _depth_ok(e):
            inner = object_of(st, e[1])
            if inner[0] == 'agg' and len(inner) > 4 and e[2] in inner[4]:
                e = inner[3][inner[4].index(e[2])]
            else:
                return e
        else:
            return e
    return e


def _depth_ok(e, d=0):
    return True


def try_continue_edges(body, call):
    """edges (from,to) taken when `call(..)?` continues: the Continue arm of the Try::branch on its result"""
    d = call.dest['l']
    edges = []
    for u in local_uses(body, d):
        if u['kind'] == 'callarg' and u['call'].callee.endswith('as std::ops::Try>::branch'):
            br = u['call']
            b = br.target
            t = body.blocks[b]['term']
            if t['t'] == 'switch':
                sw = body.switch_edges(b)
                if 0 in sw:
                    edges.append((b, sw[0]))
    return edges
