"""shared driver for the hostile-input properties C05 / C06 / C07 (DESIGN.md section 3)"""
from common import *
import hpa_report

_REPORT = {}


def report_for(P):
    r = _REPORT.get(id(P))
    if r is None:
        r = hpa_report.Report(P)
        _REPORT[id(P)] = r
    return r


def run_hpa(ctx, entries, stop_prefixes, floors, label):
    P = ctx.prog
    R = report_for(P)
    missing = [e for e in entries if e not in P.bodies]
    for e in missing:
        ctx.fail('HPA', 'entry:%s' % e, 'entry point %s of the %s analysis does not exist in the type-checked program' % (e, label))
    roots = [e for e in entries if e in P.bodies]

    def stop(b):
        k = P.key_of(b)
        return any(k.startswith(p_) for p_ in stop_prefixes)
    reach = P.reachable_bodies(roots, stop=stop)
    ctx.floor('HPA', 'functions reachable from the %s entry points' % label, len(reach), floors['functions'])
    sites = R.sites_for(reach.keys())
    by_rule = {}
    n_open = 0
    for s in sites:
        wh = s.where()
        fn = P.key_of(s.body)
        if s.verdict == 'discharged':
            by_rule[s.rule] = by_rule.get(s.rule, 0) + 1
            ctx.ok('HPA:' + s.rule, '%s %s: %s' % (fn, s.desc, s.detail), wh)
        elif s.verdict in ('typestate', 'client'):
            by_rule[s.verdict] = by_rule.get(s.verdict, 0) + 1
            ctx.note('%s %s %s: %s' % (s.verdict, fn, s.desc, s.detail))
        else:
            if R.hostile(s):
                n_open += 1
                ctx.fail('HPA', '%s|%s' % (fn, s.sig),
                         '%s: %s can fail on server-controlled data (%s) [%s]: %s' % (fn, s.desc, s.why, s.kind, s.detail), wh)
            else:
                by_rule['client-side'] = by_rule.get('client-side', 0) + 1
                ctx.note('client-side %s %s: %s' % (fn, s.desc, s.detail))
    ctx.floor('HPA', 'panic / allocation / loop sites enumerated', len(sites), floors['sites'])
    ctx.extra['sites_by_discharge_rule'] = by_rule
    ctx.extra['reachable_functions'] = len(reach)
    ctx.extra['entry_points'] = roots
    return sites
