"""Polynomial normal form of symbolic expressions and a small linear-arithmetic entailment test (Fourier-Motzkin over the
rationals, monomials as variables).  Used where a property is an identity or an inequality between address computations
(C19 guard-covers-copy and row mapping, C08 allocation and index polynomials).

poly(e) -> {monomial: Fraction}   monomial = tuple(sorted(atom keys)), () is the constant term
An atom is any sub-expression that is not +, -, * or a cast to a 64 bit (or wider) integer type; two atoms are the same
when their canonical text is the same, where the call ordinal of a pure getter (len, inner, ...) is dropped: the symbolic
state already wraps every value that was mutated between two reads in a `mutated` node, so equal text means equal value."""
from fractions import Fraction
from sym import strip
import re

WIDE = {'usize', 'isize', 'u64', 'i64', 'u128', 'i128'}
PURE = re.compile(r'(::len|::inner|::length|::as_ptr|::as_mut_ptr|::deref|::deref_mut|::as_slice|::capacity)$')
ARITH = {'Add': '+', 'Sub': '-', 'Mul': '*'}


def canon(e, depth=0):
    """full-depth canonical text of an expression"""
    if depth > 60:
        return '?deep'
    k = e[0]
    if k == 'const':
        return str(e[1]) if e[1] is not None else 'c:' + str(e[2])
    if k == 'param':
        return 'arg%d' % e[1]
    if k == 'call':
        o = '' if PURE.search(e[1]) else '@%d' % e[2]
        return '%s%s(%s)' % (e[1], o, ','.join(canon(strip(a), depth + 1) for a in e[3]))
    if k == 'via':
        return canon(e[2], depth + 1)
    if k == 'bin':
        return '%s(%s,%s)' % (e[1], canon(strip(e[2]), depth + 1), canon(strip(e[3]), depth + 1))
    if k == 'cast':
        return '(%s as %s)' % (canon(strip(e[1]), depth + 1), e[2])
    if k == 'un':
        return '%s(%s)' % (e[1], canon(strip(e[2]), depth + 1))
    if k == 'field':
        return '%s.%s' % (canon(strip(e[1]), depth + 1), e[2])
    if k in ('ref', 'deref', 'refm'):
        return canon(e[1], depth + 1)
    if k == 'discr':
        return 'discr(%s)' % canon(strip(e[1]), depth + 1)
    if k == 'agg':
        return '%s::%s(%s)' % (e[1], e[2], ','.join(canon(strip(a), depth + 1) for a in e[3]))
    if k == 'variant':
        return canon(e[1], depth + 1)
    if k == 'mutated':
        return 'out<%s@%d>' % (e[1], e[2])
    if k == 'refl':
        return '&_%d' % e[1]
    return repr(e)[:200]


def padd(a, b, k=1):
    r = dict(a)
    for m, c in b.items():
        v = r.get(m, 0) + k * c
        if v == 0:
            r.pop(m, None)
        else:
            r[m] = v
    return r


def pmul(a, b):
    r = {}
    for m1, c1 in a.items():
        for m2, c2 in b.items():
            m = tuple(sorted(m1 + m2))
            v = r.get(m, 0) + c1 * c2
            if v == 0:
                r.pop(m, None)
            else:
                r[m] = v
    return r


def const(c):
    return {(): Fraction(c)} if c else {}


def poly(e, atoms=None, depth=0):
    """polynomial normal form; `atoms` (dict) collects atom key -> expression"""
    e = strip(e)
    if depth > 60:
        return atom(e, atoms)
    k = e[0]
    if k == 'const' and e[1] is not None:
        return const(e[1])
    if k == 'bin':
        op = e[1].replace('WithOverflow', '').replace('Unchecked', '')
        if op in ARITH:
            a, b = poly(e[2], atoms, depth + 1), poly(e[3], atoms, depth + 1)
            return padd(a, b) if op == 'Add' else padd(a, b, -1) if op == 'Sub' else pmul(a, b)
        if op == 'Shl':
            b = strip(e[3])
            if b[0] == 'const' and b[1] is not None and 0 <= b[1] < 63:
                return pmul(poly(e[2], atoms, depth + 1), const(1 << b[1]))
    if k == 'cast' and e[2] in WIDE:
        return poly(e[1], atoms, depth + 1)
    return atom(e, atoms)


def atom(e, atoms):
    key = canon(e)
    if atoms is not None:
        atoms.setdefault(key, e)
    return {(key,): Fraction(1)}


def pshow(p):
    if not p:
        return '0'
    out = []
    for m, c in sorted(p.items()):
        t = '*'.join(short(x) for x in m) or '1'
        out.append(('%s' % t) if c == 1 and m else ('%s' % c) if not m else '%s*%s' % (c, t))
    return ' + '.join(out)


def short(a):
    a = re.sub(r'[A-Za-z_0-9:<>, \[\]&\']*::', '', a)
    return a if len(a) < 60 else a[:57] + '...'


def peq(a, b):
    return padd(a, b, -1) == {}


# ---- linear entailment -----------------------------------------------------------------------------------------------------
def entails(constraints, goal, nonneg=()):
    """constraints, goal: polynomials p meaning p <= 0 (over the integers).  True iff constraints |- goal, established by
    refuting constraints /\\ goal >= 1 over the rationals with monomials as independent variables (every monomial in
    `nonneg` additionally >= 0).  Sound: a rational refutation is an integer refutation; incomplete for non-linear facts."""
    cs = [dict(c) for c in constraints]
    neg = padd(const(1), goal, -1)          # 1 - goal <= 0
    cs.append(neg)
    for m in nonneg:
        cs.append({m: Fraction(-1)})
    vars_ = sorted({m for c in cs for m in c if m != ()}, key=lambda m: (len(m), m))
    for v in vars_:
        pos = [c for c in cs if c.get(v, 0) > 0]
        negs = [c for c in cs if c.get(v, 0) < 0]
        rest = [c for c in cs if c.get(v, 0) == 0]
        for p_ in pos:
            for n_ in negs:
                # eliminate v:  p/pc + n/(-nc)
                comb = padd({m: c / p_[v] for m, c in p_.items()}, {m: c / (-n_[v]) for m, c in n_.items()})
                comb.pop(v, None)
                rest.append(comb)
        cs = rest
        if len(cs) > 4000:
            return False
        for c in cs:
            if not [m for m in c if m != ()] and c.get((), 0) > 0:
                return True
    return any(not [m for m in c if m != ()] and c.get((), 0) > 0 for c in cs)


def cmp_constraint(op, l, r, truth, atoms=None):
    """polynomials p (meaning p <= 0) implied by the comparison `l op r` having the given truth value (integers)"""
    a, b = poly(l, atoms), poly(r, atoms)
    if not truth:
        op = {'Lt': 'Ge', 'Le': 'Gt', 'Gt': 'Le', 'Ge': 'Lt', 'Eq': 'Ne', 'Ne': 'Eq'}[op]
    if op == 'Le':
        return [padd(a, b, -1)]
    if op == 'Lt':
        return [padd(padd(a, b, -1), const(1))]
    if op == 'Ge':
        return [padd(b, a, -1)]
    if op == 'Gt':
        return [padd(padd(b, a, -1), const(1))]
    if op == 'Eq':
        return [padd(a, b, -1), padd(b, a, -1)]
    return []
