"""C18 - encoders and decoders are mutually inverse and agree with reference codecs (DESIGN.md 4/C18)."""
from common import *
from bits import Bits, describe
import dsl

META = {
    'level': 'other',
    'explanation': 'Sibling-agreement rules between the write / read / length implementations on the MIR of the current tree (structural '
                   'agreement, not value-level round trip): (R18.1) every Message impl: integers use the same byteorder type argument and width '
                   'on both sides and report that width; Trame and Component visit every element in order, honour SkipField identically in '
                   'write/read/length (a skipped field contributes nothing, not even its option), Component::read honours Size '
                   'unconditionally; wrappers delegate all three operations; Vec<u8> writes all bytes; (R18.2) every hand-written and derived '
                   'int->enum conversion returns the variant whose discriminant is the matched value; (R18.3) PER pairs: the object identifier '
                   'reader stores the six arcs the writer emits, read_length recovers every bit write_length emits (bit-provenance domain) and '
                   'the short/long thresholds agree, integer size classes agree, integer_16 offsets are inverse; (R18.4) every ASN1 impl pairs '
                   'write_X with read_X of the same yasna primitive; (R18.5) every DynOption of every constructor targets an existing later field; (R18.6) GCC server blocks are framed by their declared length: the body is read off the stream completely and parsed from that copy.',
    'assumptions': ['byteorder / yasna implement the primitives they name', 'value-level round trip for all inputs is not decided'],
    'trusted_base': ['rustc nightly MIR construction', 'mirfacts exporter', 'rules/c18.py, dsl.py, bits.py, sym.py, facts.py'],
}
META['explanation'] += ' (R18.7) asn1::from_ber decodes under BER rules and from_der under DER rules, also through a shared helper.'

COMP = "<indexmap::IndexMap<std::string::String, std::boxed::Box<(dyn model::data::Message + 'static)>> as model::data::Message>"
TRAME = "<std::vec::Vec<std::boxed::Box<(dyn model::data::Message + 'static)>> as model::data::Message>"
ASN1_PAIRS = {
    'std::vec::Vec<u8>': ('write_bytes', 'read_bytes'), 'u32': ('write_u32', 'read_u32'), 'bool': ('write_bool', 'read_bool'),
    'i64': ('write_enum', 'read_enum'),
    'indexmap::IndexMap<std::string::String, std::boxed::Box<(dyn nla::asn1::ASN1 + \'static)>>': ('write_sequence', 'read_sequence'),
    'nla::asn1::SequenceOf': ('write_sequence_of', 'read_sequence_of'),
    'nla::asn1::ExplicitTag<T>': ('write_tagged', 'read_tagged'), 'nla::asn1::ImplicitTag<T>': ('write_tagged_implicit', 'read_tagged_implicit'),
}


def run(ctx):
    P = ctx.prog
    # ---- R18.1 integers ----------------------------------------------------------------------------------------
    for ty, w, bits_ in (('u16', 2, 16), ('u32', 4, 32)):
        imp = '<model::data::Value<%s> as model::data::Message>' % ty
        for op, fn in (('write', 'byteorder::WriteBytesExt::write_' + ty), ('read', 'byteorder::ReadBytesExt::read_' + ty)):
            b = ctx.body(imp + '::' + op)
            seen = {}
            for path, st in feasible_paths(b, P):
                if ret_kind(st.env.get(0)) not in ('ok',):
                    continue
                var = None
                for ev in path_branches(st):
                    d = strip(ev[2])
                    if d[0] == 'discr' and unwrap_cast(d[1]) == ('param', 1) and var is None:
                        var = ev[3]
                cs = [ev for ev in st.events if ev[0] == 'call' and ev[1].callee == fn]
                en = cs[0][1].generic_args[-1].rsplit('::', 1)[-1] if len(cs) == 1 else '?'
                seen[var] = en
            # Value<T>: variant 0 = BE, 1 = LE
            ctx.check(seen == {0: 'BigEndian', 1: 'LittleEndian'}, 'R18.1', 'int:%s:%s' % (ty, op),
                      'U%d::%s uses byteorder %s with BigEndian for BE and LittleEndian for LE' % (bits_, op, fn.rsplit('::', 1)[-1]), b.where(),
                      'U%d::%s maps variants (0=BE, 1=LE) to %s: writer and reader would disagree on endianness' % (bits_, op, seen))
        lb = ctx.body(imp + '::length')
        ctx.check(const_return(lb) == w, 'R18.1', 'int:%s:length' % ty, 'U%d::length() = %d' % (bits_, w), lb.where(),
                  'U%d::length() returns %s instead of %d' % (bits_, const_return(lb), w))
    for op, fn in (('write', 'byteorder::WriteBytesExt::write_u8'), ('read', 'byteorder::ReadBytesExt::read_u8')):
        b = ctx.body('<u8 as model::data::Message>::' + op)
        ctx.check(len(b.calls_to(fn)) == 1, 'R18.1', 'int:u8:%s' % op, 'u8::%s uses %s' % (op, fn.rsplit('::', 1)[-1]), b.where())
    ctx.check(const_return(ctx.body('<u8 as model::data::Message>::length')) == 1, 'R18.1', 'int:u8:length', 'u8::length() = 1', '')
    inner = ctx.body('model::data::Value::<Type>::inner')
    ctx.check(not inner.calls, 'R18.1', 'value:inner_pure', 'Value::inner is a call-free accessor (used as a pure getter by the analyses)', inner.where())

    # ---- R18.1 Trame / Component ----------------------------------------------------------------------------------
    for op in ('write', 'read', 'length'):
        b = ctx.body(TRAME + '::' + op)
        nexts = [c for c in b.calls if c.callee.endswith('Iterator>::next') and b.in_cycle(c.block)]
        per = [c for c in b.calls if c.callee == 'model::data::Message::' + op and b.in_cycle(c.block)]
        adapters = [c for c in b.calls if re.search(r'::(rev|skip|take|filter|step_by)$', c.callee)]
        loop_form = len(nexts) == 1 and len(per) == 1 and not adapters
        # the combinator form of the same traversal: self.iter().try_for_each(|n| n.write(w)) / .fold(0, |s, n| s + n.length()) /
        # .map(|n| n.length()).sum(): every iterator call of the body is on this whitelist (no rev/skip/take/filter/..), exactly one
        # consumer, and its only closure applies the operation once, unconditionally (straight-line closure body)
        comb_form = False
        if not nexts and not per and not any(b.in_cycle(i) for i in range(b.n) if not b.blocks[i]["cleanup"]):
            names = [c.callee for c in b.calls]
            prod = r'(Deref>::deref|<impl \[T\]>::iter|IntoIterator>::into_iter|Vec::<T, A>::iter|Vec::<T, A>::as_slice)$'
            cons = {'write': r'Iterator(>)?::try_for_each$', 'read': r'Iterator(>)?::try_for_each$',
                    'length': r'Iterator(>)?::(fold|sum)$'}[op]
            consumers = [n for n in names if re.search(cons, n)]
            maps = [n for n in names if re.search(r'Iterator(>)?::map$', n)]
            others = [n for n in names if not re.search(prod, n) and n not in consumers and n not in maps]
            cl = P.closures_of(b.path)
            if len(consumers) == 1 and not others and len(cl) == 1 and len(maps) == (1 if consumers[0].endswith('::sum') else 0):
                cb = cl[0]
                live = [bl for bl in cb.blocks if not bl['cleanup']]
                ccalls = [c.callee for c in cb.calls]
                adds = [st_ for bl in live for st_ in bl['stmts'] if st_['s'] == 'assign' and st_['rv']['rv'] == 'bin' and st_['rv']['op'].startswith('Add')]
                comb_form = ccalls == ['model::data::Message::' + op] and all(bl['term']['t'] in ('call', 'assert', 'return', 'goto', 'drop') for bl in live) \
                    and (op != 'length' or consumers[0].endswith('::sum') or len(adds) == 1)
        ctx.check(loop_form or comb_form, 'R18.1', 'trame:%s' % op,
                  'Trame::%s visits every element in order and applies %s to it' % (op, op), b.where(),
                  'Trame::%s does not apply %s to every element in order' % (op, op))
    for op in ('write', 'read', 'length'):
        b = ctx.body(COMP + '::' + op)
        n_skip = n_proc = 0
        for path, st in feasible_paths(b, P, limit=300000):
            if not st.cut:
                continue
            calls = [ev for ev in st.events if ev[0] == 'call']
            cont = [ev for ev in path_branches(st) if strip(ev[2])[0] == 'call' and re.search(r'HashSet::<T, S(, A)?>::contains$', strip(ev[2])[1])]
            if not cont:
                continue
            skipped = branch_truth(cont[0])
            opcalls = [ev for ev in calls if ev[1].callee == 'model::data::Message::' + op]
            optcalls = [ev for ev in calls if ev[1].callee == 'model::data::Message::options']
            ins = [ev for ev in calls if re.search(r'HashSet::<T, S(, A)?>::insert$', ev[1].callee)]
            if skipped:
                n_skip += 1
                ctx.check(not opcalls and not optcalls and not ins, 'R18.1', 'component:%s:skipped' % op,
                          'Component::%s: a field named by an earlier SkipField contributes nothing (no %s, no options)' % (op, op), b.where(),
                          'Component::%s still evaluates %s of a skipped field: write, read and length would disagree when skips are chained'
                          % (op, [e[1].callee.rsplit('::', 1)[-1] for e in opcalls + optcalls + ins]))
            else:
                n_proc += 1
                skip_reg = True
                if ins:
                    # the insert happens only under options() == SkipField
                    skip_reg = any(strip(ev[2])[0] == 'discr' and has_call(strip(ev[2]), 'model::data::Message::options') and ev[3] == 0
                                   for ev in path_branches(st)) \
                        and all(has_call(resolve(st, e_[2][1]), 'model::data::Message::options') for e_ in ins)
                ctx.check(len(opcalls) == 1 and len(optcalls) == 1 and skip_reg, 'R18.1', 'component:%s:processed' % op,
                          'Component::%s: a live field is %s exactly once and its SkipField option is registered' % (op, {'write': 'written', 'read': 'read', 'length': 'counted'}[op]),
                          b.where(), 'Component::%s does not process each live field exactly once and register its SkipField option' % op)
        ctx.floor('R18.1', 'Component::%s iteration paths (skipped / processed)' % op, min(n_skip, 1) + min(n_proc, 1), 2)
    # Size honoured unconditionally (shared with C10)
    import c10
    ctx.include(c10.run, ('R10.4',), 'R18.1')

    # wrappers delegate
    for ty, fld in (('model::data::Check<T>', 'value'), ('model::data::DynOption<T>', 'inner')):
        for op in ('write', 'read', 'length', 'visit'):
            b = ctx.body('<%s as model::data::Message>::%s' % (ty, op))
            cs = [c for c in b.calls if c.callee == 'model::data::Message::' + op]
            good = len(cs) >= 1 and all(any(o.kind == 'param' and o.param == 1 and o.path[:1] == (fld,) for o in origins(b, c.args[0])) for c in cs)
            ctx.check(good, 'R18.1', 'delegate:%s:%s' % (ty, op), '%s::%s delegates to its inner value' % (ty.rsplit('::', 1)[-1], op), b.where(),
                      '%s::%s does not delegate to the wrapped value' % (ty, op))
    for op in ('write', 'read', 'length', 'visit'):
        b = ctx.body('<std::option::Option<T> as model::data::Message>::%s' % op)
        ctx.check(len([c for c in b.calls if c.callee == 'model::data::Message::' + op]) == 1, 'R18.1', 'delegate:Option:%s' % op,
                  'Option<T>::%s delegates to the present value' % op, b.where())
        b = ctx.body('<model::data::Array<T> as model::data::Message>::%s' % op)
        want = TRAME + '::' + op
        if op == 'read':
            good = len([c for c in b.calls if c.callee.endswith('as model::data::Message>::read') and 'Option' in c.callee]) == 1 and any(b.in_cycle(c.block) for c in b.calls)
        else:
            good = len([c for c in b.calls if c.callee == want]) == 1
        ctx.check(good, 'R18.1', 'delegate:Array:%s' % op, 'Array::%s works on the inner trame' % op, b.where(), 'Array::%s does not operate on the inner trame' % op)
    vb = ctx.body('<std::vec::Vec<u8> as model::data::Message>::write')
    ctx.check(len(vb.calls_to('std::io::Write::write_all')) == 1 and not vb.calls_to('std::io::Write::write'), 'R18.1', 'bytes:write',
              'Vec<u8>::write writes all bytes (write_all)', vb.where(), 'Vec<u8>::write may write only part of the buffer')
    lb = ctx.body('<std::vec::Vec<u8> as model::data::Message>::length')
    ctx.check(len(lb.calls_to(re.compile(r'Vec::<T, A>::len$'))) == 1, 'R18.1', 'bytes:length', 'Vec<u8>::length = len()', lb.where())

    # ---- R18.2 int -> enum conversions ----------------------------------------------------------------------------
    n_conv = 0
    for k, b in sorted(P.bodies.items()):
        m = re.match(r'^<(.*) as std::convert::(Try)?From<(u8|u16|u32)>>::(try_)?from$', k)
        if not m:
            continue
        enum = m.group(1)
        if enum not in P.adts:
            continue
        dv = {d: n for n, d in P.enum_variants(enum)}
        n_conv += 1
        for path, st in feasible_paths(b, P, limit=20000):
            v = resolve(st, strip(st.env.get(0)))
            val = None
            for ev in path_branches(st):
                d = strip(ev[2])
                if unwrap_cast(d) == ('param', 1) and ev[3] is not None:
                    val = ev[3]
            var = None
            for n in walk(v):
                if n[0] == 'agg' and n[1] == enum:
                    var = n[2]
            if val is None or var is None:
                continue
            ctx.check(dv.get(val) == var, 'R18.2', 'conv:%s:%s' % (enum, val), '%s: %#x -> %s' % (enum.rsplit('::', 1)[-1], val, var), b.where(),
                      '%s::from maps %#x to %s but the enum defines %s = %#x and %#x = %s: decode(encode(v)) != v'
                      % (enum, val, var, var, {n: d for d, n in dv.items()}.get(var, -1), val, dv.get(val)))
    ctx.floor('R18.2', 'int->enum conversion functions', n_conv, 10)

    # ---- R18.3 PER -------------------------------------------------------------------------------------------------------
    ro = ctx.body('core::per::read_object_identifier')
    wo = ctx.body('core::per::write_object_identifier')
    idx = []
    for bi in range(ro.n):
        for stt in ro.blocks[bi]['stmts']:
            if stt['s'] == 'assign' and stt['place']['p'] and stt['place']['p'][-1]['k'] == 'cindex':
                idx.append(stt['place']['p'][-1]['offset'])
            elif stt['s'] == 'assign' and stt['place']['p'] and stt['place']['p'][-1]['k'] == 'index':
                i = stt['place']['p'][-1]['l']
                cs = [op_const(d[3]['rv']['op']) for d in ro.defs.get(i, []) if d[0] == 'stmt' and d[3]['rv']['rv'] == 'use']
                idx.extend(cs)
    # `for arc in oid_parsed[k..].iter_mut() { *arc = <byte read> }`: one store per element of the tail k..N of the [u8; N] array
    for c in ro.calls:
        if re.search(r'IndexMut<I> for \[T; N\]>::index_mut$', c.callee) and len(c.args) == 2:
            start = None
            for d in ro.defs.get(op_local(c.args[1]), []):
                if d[0] == 'stmt' and d[3]['rv']['rv'] == 'agg' and d[3]['rv'].get('adt') == 'std::ops::RangeFrom':
                    start = op_const(d[3]['rv']['ops'][0])
            n_arr = None
            for o in origins(ro, c.args[0]):
                pass
            vis = set()
            origins(ro, c.args[0], visited=vis)
            for l in vis:
                m = re.match(r'^\[u8; (\d+)\]$', ro.j['locals'][l]['ty'])
                if m:
                    n_arr = int(m.group(1))
            nx = [x for x in ro.calls if x.callee.endswith("IterMut<'a, T> as std::iter::Iterator>::next") and ro.in_cycle(x.block)]
            stores = [bi for bi in range(ro.n) if ro.in_cycle(bi) for stt in ro.blocks[bi]['stmts']
                      if stt['s'] == 'assign' and len(stt['place']['p']) == 1 and stt['place']['p'][0]['k'] == 'deref']
            others = [x.callee for x in ro.calls if re.search(r'::(rev|skip|take|filter|step_by|zip|chain)$', x.callee)]
            if start is not None and n_arr is not None and len(nx) == 1 and len(stores) == 1 and not others:
                idx.extend(range(start, n_arr))
    # `for arc in oid_parsed.iter_mut().skip(k) { *arc = <byte read> }`: the same tail, written with skip(k) (k constant)
    for c in ro.calls:
        if c.callee.endswith('Iterator::skip') and len(c.args) == 2 and op_const(c.args[1]) is not None:
            vis = set()
            origins(ro, c.args[0], visited=vis)
            n_arr = None
            for l in vis:
                m = re.match(r'^\[u8; (\d+)\]$', ro.j['locals'][l]['ty'])
                if m:
                    n_arr = int(m.group(1))
            im = [x for x in ro.calls if re.search(r'<impl \[T\]>::iter_mut$', x.callee)]
            for x in im:
                origins(ro, x.args[0], visited=vis)
            for l in vis:
                m = re.match(r'^\[u8; (\d+)\]$', ro.j['locals'][l]['ty'])
                if m:
                    n_arr = int(m.group(1))
            nx = [x for x in ro.calls if x.callee.endswith('as std::iter::Iterator>::next') and 'Skip' in x.callee and ro.in_cycle(x.block)]
            stores = [bi for bi in range(ro.n) if ro.in_cycle(bi) for stt in ro.blocks[bi]['stmts']
                      if stt['s'] == 'assign' and len(stt['place']['p']) == 1 and stt['place']['p'][0]['k'] == 'deref']
            others = [x.callee for x in ro.calls if re.search(r'::(rev|take|filter|step_by|zip|chain)$', x.callee)]
            if n_arr is not None and len(im) == 1 and len(nx) == 1 and len(stores) == 1 and not others:
                idx.extend(range(op_const(c.args[1]), n_arr))
    ctx.check(sorted(idx) == [0, 1, 2, 3, 4, 5], 'R18.3', 'oid:reader_indices', 'read_object_identifier stores each of the six arcs exactly once', ro.where(),
              'read_object_identifier stores arcs at indices %s (the writer emits arcs 0..5)' % sorted(idx))
    widx = []
    for bi in range(wo.n):
        t = wo.blocks[bi]['term']
        if t['t'] == 'assert' and t['msg'].get('k') == 'bounds':
            il = op_local(t['msg']['index'])
            cs = [op_const(d[3]['rv']['op']) for d in wo.defs.get(il, []) if d[0] == 'stmt' and d[3]['rv']['rv'] == 'use']
            widx.extend(cs if cs else [-1])
    ctx.check(sorted(widx) == [0, 1, 2, 3, 4, 5], 'R18.3', 'oid:writer_indices', 'write_object_identifier emits the six arcs', wo.where(),
              'write_object_identifier reads arcs %s' % sorted(widx))
    # read_length / write_length
    rl = ctx.body('core::per::read_length')
    n_long = 0
    for path, st in feasible_paths(rl, P):
        v = strip(st.env.get(0))
        if not (v[0] == 'agg' and v[2] == 'Ok'):
            continue
        long_form = None
        for ev in path_branches(st):
            e = fold(resolve(st, ev[2]))
            if e[0] == 'bin' and e[1] in ('Ne', 'Eq') and fold(e[3])[1] == 0:
                x = unwrap_cast(e[2])
                if x[0] == 'bin' and x[1] == 'BitAnd' and fold(x[3])[1] == 0x80:
                    long_form = branch_truth(ev) if e[1] == 'Ne' else not branch_truth(ev)
        B = Bits()
        bits = B.eval(resolve(st, v[3][0]), 16, 8)
        order = sorted(range(len(B.leaves)), key=lambda i: B.leaves[i][2] if B.leaves[i][0] == 'mutated' else 10 ** 6)
        names = {i: 'byte%d' % (n_ + 1) for n_, i in enumerate(order)}
        if long_form:
            n_long += 1
            want = ([(order[1], k) for k in range(8)] + [(order[0], k) for k in range(7)] + [0]) if len(order) == 2 else None
            ctx.check(bits == want, 'R18.3', 'per:read_length:long', 'PER long length = ((byte1 & 0x7f) << 8) | byte2 - all 15 bits that write_length emits  [%s]' % describe(bits, names),
                      rl.where(), 'read_length decodes the two-byte form as [%s]; write_length emits length | 0x8000 (15 value bits): lengths would not round-trip' % describe(bits, names))
        elif long_form is False:
            want = ([(order[0], k) for k in range(8)] + [0] * 8) if len(order) == 1 else None
            ctx.check(bits == want, 'R18.3', 'per:read_length:short', 'PER short length = byte1', rl.where(), 'read_length decodes the one-byte form as [%s]' % describe(bits, names))
    ctx.floor('R18.3', 'long-form paths of read_length', n_long, 1)
    wl = ctx.body('core::per::write_length')
    n_w = 0
    for path, st in feasible_paths(wl, P):
        v = resolve(st, strip(st.env.get(0)))
        if not (v[0] == 'agg' and v[2] == 'Ok'):
            continue
        bound = None
        for ev in path_branches(st):
            e = fold(resolve(st, ev[2]))
            if e[0] == 'bin' and e[1] in ('Gt', 'Ge', 'Lt', 'Le') and unwrap_cast(e[2]) == ('param', 1) and fold(e[3])[0] == 'const':
                c = fold(e[3])[1]
                t = branch_truth(ev)
                # upper bound implied for the short path / lower bound for the long path
                if e[1] == 'Gt':
                    bound = ('le', c) if not t else ('gt', c)
                elif e[1] == 'Ge':
                    bound = ('le', c - 1) if not t else ('gt', c - 1)
                elif e[1] == 'Le':
                    bound = ('le', c) if t else ('gt', c)
                elif e[1] == 'Lt':
                    bound = ('le', c - 1) if t else ('gt', c - 1)
        is_short = any(n[0] == 'cast' and n[2] == 'u8' for n in walk(v)) and not any(n[0] == 'agg' and n[1] == 'model::data::Value' for n in walk(v))
        n_w += 1
        if is_short:
            ctx.check(bound is not None and bound[0] == 'le' and bound[1] <= 0x7f, 'R18.3', 'per:write_length:short',
                      'write_length uses the one-byte form only for length <= 0x7f (bit 7 is the form marker)', wl.where(),
                      'write_length emits the one-byte form for lengths up to %s: 0x80 and above collide with the two-byte marker' % (bound,))
        else:
            be = any(n[0] == 'agg' and n[1] == 'model::data::Value' and n[2] == 'BE' for n in walk(v))
            orc = [fold(n) for n in walk(v) if n[0] == 'bin' and n[1] == 'BitOr']
            mk = bool(orc) and fold(orc[0][3])[1] == 0x8000
            ctx.check(bound is not None and bound[0] == 'gt' and bound[1] >= 0x7f and be and mk, 'R18.3', 'per:write_length:long',
                      'write_length two-byte form = big-endian (length | 0x8000) for length > 0x7f', wl.where(),
                      'write_length long form is not big-endian length|0x8000 for lengths above 0x7f (bound %s)' % (bound,))
    ctx.floor('R18.3', 'forms of write_length', n_w, 2)
    # integer size classes
    ri = ctx.body('core::per::read_integer')
    wi = ctx.body('core::per::write_integer')
    rsz = set()
    for bi in range(ri.n):
        t = ri.blocks[bi]['term']
        if t['t'] == 'switch' and t.get('discr_ty') == 'u16':
            rsz |= set(t['vals'])
    wsz = set(op_const(c.args[0]) for c in wi.calls_to('core::per::write_length'))
    ctx.check(wsz and wsz <= rsz, 'R18.3', 'per:integer_sizes', 'write_integer size classes %s are accepted by read_integer %s' % (sorted(wsz), sorted(rsz)), wi.where(),
              'write_integer emits size classes %s but read_integer accepts only %s' % (sorted(wsz), sorted(rsz)))
    r16 = ctx.body('core::per::read_integer_16')
    w16 = ctx.body('core::per::write_integer_16')
    radd = any(c.callee.endswith('checked_add') or c.callee.endswith('wrapping_add') for c in r16.calls) or \
        any(stt['s'] == 'assign' and stt['rv']['rv'] == 'bin' and stt['rv']['op'].startswith('Add') for bi in range(r16.n) for stt in r16.blocks[bi]['stmts'])
    wsub = any(stt['s'] == 'assign' and stt['rv']['rv'] == 'bin' and stt['rv']['op'].startswith('Sub') for bi in range(w16.n) for stt in w16.blocks[bi]['stmts'])
    ctx.check(radd and wsub, 'R18.3', 'per:integer16', 'read_integer_16 adds the minimum that write_integer_16 subtracts', r16.where(),
              'read_integer_16 / write_integer_16 do not apply inverse offsets')

    # ---- R18.4 ASN.1 pairs -------------------------------------------------------------------------------------------------------
    n_as = 0
    for im in P.impls:
        if im.get('trait') != 'nla::asn1::ASN1':
            continue
        ty = im['self_ty']
        pair = ASN1_PAIRS.get(ty)
        if pair is None:
            ctx.fail('R18.4', 'asn1:unknown:%s' % ty, 'ASN1 impl for %s has no reference primitive pair' % ty)
            continue
        n_as += 1
        items = {it['name']: it['path'] for it in im['items']}
        wb = P.bodies.get(items.get('write_asn1'))
        rb = P.bodies.get(items.get('read_asn1'))
        wc = [c.callee.rsplit('::', 1)[-1] for c in (wb.calls if wb else []) if 'yasna::' in c.callee and 'DERWriter' in c.callee]
        rc = [c.callee.rsplit('::', 1)[-1] for c in (rb.calls if rb else []) if 'yasna::' in c.callee and 'BERReader' in c.callee]
        ctx.check(wc == [pair[0]] and rc == [pair[1]], 'R18.4', 'asn1:%s' % ty, 'ASN1 for %s: %s / %s' % (ty.split('<')[0].rsplit('::', 1)[-1], pair[0], pair[1]),
                  wb.where() if wb else '', 'ASN1 impl for %s writes with %s and reads with %s (expected %s / %s)' % (ty, wc, rc, pair[0], pair[1]))
        if 'Tag<' in ty and wb and rb:
            for b_, prim in ((wb, pair[0]), (rb, pair[1])):
                c = [c for c in b_.calls if c.callee.endswith(prim)]
                o = origins(b_, c[0].args[1]) if c else []
                ctx.check(any(x.kind == 'param' and x.param == 1 and x.path[:1] == ('tag',) for x in o), 'R18.4', 'asn1:%s:tag:%s' % (ty, prim),
                          '%s uses self.tag' % prim, b_.where(), '%s for %s does not use the stored tag' % (prim, ty))
    ctx.floor('R18.4', 'ASN1 impls', n_as, 8)

    # ---- R18.7 the two ASN.1 entry points decode under the rules their name says: from_ber under BER (it reads the T.125 connect response,
    # whose length forms need not be minimal), from_der under DER (CredSSP).  A shared helper must receive the matching mode.
    for fn, want in (('nla::asn1::from_ber', 'Ber'), ('nla::asn1::from_der', 'Der')):
        fb = ctx.body(fn)
        modes = set()
        for path, st in feasible_paths(fb, P, limit=5000):
            for ev in path_calls(st, re.compile(r'^yasna::parse_(ber|der|ber_general)$')):
                nm = ev[1].callee
                if nm.endswith('parse_ber'):
                    modes.add('Ber')
                elif nm.endswith('parse_der'):
                    modes.add('Der')
                else:
                    m_ = unwrap_cast(resolve(st, ev[2][1])) if len(ev[2]) > 1 else ('unknown',)
                    modes.add(m_[2] if m_[0] == 'agg' else 'unknown')
        ctx.check(modes == {want}, 'R18.7', 'asn1:%s' % fn.rsplit('::', 1)[-1], '%s decodes under %s rules' % (fn.rsplit('::', 1)[-1], want.upper()), fb.where(),
                  '%s decodes under %s rules: %s' % (fn, sorted(modes), 'valid BER that is not canonical DER (long-form short lengths, indefinite lengths) from a '
                                                     'conforming server would be rejected' if want == 'Ber' else 'non-canonical encodings would be accepted'))

    # ---- R18.5 every DynOption targets an existing later field ---------------------------------------------------------------------
    n_dyn = 0
    for fn in dsl.constructors(P):
        for sh, fl in dsl.returned_components(P, fn):
            keys = [f.key for f in fl]
            for i, f in enumerate(fl):
                if f.kind == 'Dyn' and f.option:
                    n_dyn += 1
                    for o in f.option:
                        if o['kind'] in ('Size', 'SkipField'):
                            ctx.check(o['target'] in keys[i + 1:], 'R18.5', 'target:%s:%s' % (fn, f.key),
                                      '%s.%s -> %s("%s") names a later field' % (fn.rsplit('::', 1)[-1], f.key, o['kind'], o['target']), sh.body.where(),
                                      '%s: option of field %s targets "%s" which is not a later field (the option would silently have no effect)' % (fn, f.key, o['target']))
            break
    ctx.floor('R18.5', 'DynOption fields with decoded closures', n_dyn, 23)


    # ---- R18.6 GCC server blocks are framed by their own length: the body is taken off the stream entirely, parsers work on that copy ------
    gc = ctx.body('core::gcc::read_conference_create_response')
    rex = [c for c in gc.calls if c.callee.endswith('Read::read_exact') or c.callee.endswith('read_exact')]
    takes = [c for c in gc.calls if c.callee.endswith('Read::take')]
    ok_frame = False
    why = 'no read_exact of the block body'
    buf_local = None
    if len(rex) == 1 and takes:
        c = rex[0]
        rd_src = [o.call.callee for o in origins(gc, c.args[0]) if o.kind == 'call']
        bufs = [o.call for o in origins(gc, c.args[1]) if o.kind == 'call' and o.call.callee == 'std::vec::from_elem']
        size_from_len = False
        for bcall in bufs:
            vis = set()
            os_ = origins(gc, bcall.args[1], visited=vis)
            def from_length(ops, depth=0):
                for o in ops:
                    if o.kind == 'const' and '"length"' in str(o.const):
                        return True
                    if o.kind == 'call' and depth < 6:
                        if re.search(r'Index<.*>>::index$', o.call.callee) and any(oo.kind == 'const' and '"length"' in str(oo.const) for a in o.call.args for oo in origins(gc, a)):
                            return True
                        if re.search(r'ok_or$|checked_sub$|Message::visit$|Try>::branch$|Value::<Type>::inner$|Index<.*>>::index$', o.call.callee) and o.call.args \
                                and from_length(origins(gc, o.call.args[0]), depth + 1):
                            return True
                return False
            size_from_len = from_length(os_)
            buf_local = bcall.dest['l']
        ok_frame = any(x.endswith('Read::take') for x in rd_src) and bool(bufs) and size_from_len
        why = 'reader from %s, buffer %s, size from the length field: %s' % (rd_src[:2], 'vec![0; n]' if bufs else 'not a fresh vector', size_from_len)
    ctx.check(ok_frame, 'R18.6', 'gcc:block_body', 'each server block body (length - header) is read completely off the bounded response stream', gc.where(),
              'read_conference_create_response does not take each block body (declared length - 4 bytes) off the stream with one read_exact (%s): bytes a '
              'block parser leaves unread would be taken for the next block header' % why)
    n_parsers = 0
    covered = set()
    for c in gc.calls:
        if not re.search(r'Message(>)?::read$', c.callee) or not c.args:
            continue
        self_src = [o.call.callee for o in origins(gc, c.args[0]) if o.kind == 'call']
        if not any(re.search(r'gcc::server_(core|security|network)_data$', x) for x in self_src):
            continue
        covered |= {x for x in self_src if re.search(r'gcc::server_(core|security|network)_data$', x)}
        n_parsers += 1
        rsrc = [o.call for o in origins(gc, c.args[1]) if o.kind == 'call']
        names = [x.callee for x in rsrc]
        cur = [x for x in rsrc if x.callee.endswith('Cursor::<T>::new')]
        from_buf = bool(cur) and all(any((o.kind == 'call' and o.call.callee == 'std::vec::from_elem') for o in origins(gc, x.args[0])) for x in cur)
        good = (from_buf or 'std::vec::from_elem' in names) and not any(x.endswith('Read::take') for x in names) and (not rex or gc.dominates(rex[0].block, c.block))
        ctx.check(good, 'R18.6', 'gcc:parser:%s' % [x for x in self_src if 'server_' in x][0].rsplit('::', 1)[-1],
                  'the block parser reads from a cursor over the extracted body, after it has been taken off the stream', c.where(),
                  'a GCC block parser reads directly from the response stream (%s): what it does not consume is left in front of the next block' % names[:3])
    ctx.floor('R18.6', 'GCC server block layouts whose parser call was examined (one shared call may serve the three)', len(covered), 3)

def const_return(body):
    for bi in range(body.n):
        for stt in body.blocks[bi]['stmts']:
            if stt['s'] == 'assign' and stt['place']['l'] == 0 and not stt['place']['p'] and stt['rv']['rv'] == 'use':
                return op_const(stt['rv']['op'])
    return None
