"""Relational invariant analysis (DESIGN.md 9.6 "D-rel"): a forward abstract interpretation of one MIR body in the domain

    values : local -> exact polynomial over symbolic atoms (parameters at entry, call results, join variables)
    facts  : a conjunction of polynomial inequalities  p <= 0  over those atoms

with Houdini-style joins (a fact is kept at a join iff every incoming edge entails it; candidates come from the incoming
states rewritten over the join variables, from increment relations between loop counters, and from templates abduced from
undischarged obligations) and an entailment test by Fourier-Motzkin over the rationals with monomials as variables plus
products of facts with non-negative atoms (degree 2).  Nothing is executed and no solver is involved.

It decides the obligations the interval domain cannot: index < len and no-overflow sites whose truth needs relations
between loop variables and buffer lengths (the RLE decoders, the row flips, the 565 conversion)."""
import re
import json
from fractions import Fraction
from facts import is_place_op, op_local, op_const
from poly import padd, pmul, const, pshow

INT_RX = re.compile(r'^[ui](8|16|32|64|128|size)$')
MAXV = {8: 255, 16: 65535, 32: (1 << 32) - 1, 64: (1 << 64) - 1, 128: (1 << 128) - 1}
import os
DEBUG = bool(os.environ.get('RELINV_DEBUG'))
CAP_COMB = int(os.environ.get('RELINV_CAP_COMB', '600'))
CAP_ROWS = int(os.environ.get('RELINV_CAP_ROWS', '700'))
LEN_MAX = (1 << 63) - 1       # std: a slice / Vec is never longer than isize::MAX bytes


def int_bits(ty):
    m = INT_RX.match(ty or '')
    if not m:
        return None
    return (64 if m.group(1) == 'size' else int(m.group(1))), ty.startswith('i')


def atoms_of(p):
    return {a for m in p for a in m}


_ATOMS = {}


def fact_atoms(k, f):
    a = _ATOMS.get(k)
    if a is None:
        a = frozenset(x for m in f for x in m)
        _ATOMS[k] = a
    return a


_INTERN = {}


def ckey(p):
    """interned identity of a polynomial (small int: cheap to hash, compare and put in sets)"""
    t = tuple(sorted(p.items()))
    i = _INTERN.get(t)
    if i is None:
        i = len(_INTERN)
        _INTERN[t] = i
    return i


def norm(p):
    """scale an inequality p <= 0 to coprime integer coefficients (of the non-constant part), so that equal facts have equal keys"""
    import math
    den = 1
    for m, c in p.items():
        d = c.denominator
        if d != 1:
            den = den * d // math.gcd(den, d)
    g = 0
    for m, c in p.items():
        if m != ():
            g = math.gcd(g, abs(int(c * den)))
    if g == 0:
        return p
    if den == 1 and g == 1:
        return p
    f = Fraction(den, g)
    return {m: c * f for m, c in p.items()}


def tighten(p):
    """integer tightening of p <= 0: all monomials take integer values, so with integer coefficients of gcd g the constant
    can be rounded up to the next multiple of g"""
    import math
    cs = [c for m, c in p.items() if m != ()]
    if not cs or any(c.denominator != 1 for c in cs):
        return p
    g = 0
    for c in cs:
        g = math.gcd(g, abs(int(c)))
    if g <= 1:
        k = p.get((), Fraction(0))
        if k.denominator != 1:
            q = dict(p)
            q[()] = Fraction(math.ceil(k))
            return q
        return p
    k = p.get((), Fraction(0))
    q = {m: c / g for m, c in p.items() if m != ()}
    kk = Fraction(math.ceil(k / g))
    if kk != 0:
        q[()] = kk
    return q


def psubst(p, sub):
    """substitute atoms by polynomials"""
    if not any(a in sub for m in p for a in m):
        return p
    out = {}
    for m, c in p.items():
        term = {(): c}
        for a in m:
            term = pmul(term, sub[a]) if a in sub else pmul(term, {(a,): Fraction(1)})
        out = padd(out, term)
    return out


def A(name):
    return {(name,): Fraction(1)}


# ---- entailment ----------------------------------------------------------------------------------------------------------------
class Prover:
    def __init__(self):
        self.cache = {}
        self.queries = 0

    def entails(self, facts, goal, nonneg):
        """facts: iterable of polys (<= 0); goal poly (<= 0); nonneg: set of atoms known >= 0"""
        if not goal:
            return True
        if not [m for m in goal if m != ()]:
            return goal.get((), 0) <= 0
        facts = [f for f in facts if f]
        key = (frozenset(ckey(f) for f in facts), ckey(goal))
        r = self.cache.get(key)
        if r is not None:
            return r
        self.queries += 1
        if DEBUG:
            import time as _t
            t0 = _t.time()
        r = self._entails(facts, goal, nonneg)
        if DEBUG and _t.time() - t0 > 1.0:
            import sys as _s
            _s.stderr.write('    slow query %.1fs facts=%d goal=%s -> %s\n' % (_t.time() - t0, len(facts), pshow(goal)[:150], r))
        self.cache[key] = r
        return r

    def _entails(self, facts, goal, nonneg):
        levels = [list(facts)]
        neg_goal = padd(const(1), goal, -1)         # facts /\ 1 - goal <= 0  (integers)

        def with_nonneg(rows):
            monos = {m for p in rows + [goal] for m in p if m != ()}
            return rows + [{m: Fraction(-1)} for m in monos if all(a in nonneg for a in m)]
        # stage 1: linear reasoning over monomials, every monomial of non-negative atoms is non-negative
        for lv in levels:
            if lp_refute(with_nonneg([dict(f) for f in lv]), neg_goal):
                return True
        # stage 2: products of linear facts with non-negative atoms, for the degree-2 monomials that occur
        for lv in levels:
            cs = [dict(f) for f in lv]
            pairs = set()
            for p in [goal] + cs:
                for m in p:
                    if len(m) == 2:
                        if m[0] in nonneg:
                            pairs.add((m[0], m[1]))
                        if m[1] in nonneg:
                            pairs.add((m[1], m[0]))
            if not pairs:
                continue
            lin = [f for f in cs if all(len(m) <= 1 for m in f)]
            extra = {}
            for a, other in sorted(pairs):
                for f in lin:
                    if (other,) in f:
                        g = pmul(f, A(a))
                        extra.setdefault(ckey(g), g)
            if not extra:
                continue
            if lp_refute(with_nonneg(cs + list(extra.values())[:300]), neg_goal):
                return True
        return False


def lp_refute(cs, neg_goal):
    """True iff {p <= 0 for p in cs} /\ neg_goal <= 0 has no rational solution (monomials = independent variables), decided
    exactly by Farkas' lemma: the system is infeasible iff some y >= 0 has  sum y_j a_j = 0  and  sum y_j b_j > 0.
    Primal simplex (Bland's rule) on  max b.y  s.t.  A^T y = 0, sum y <= 1, y >= 0, in exact integer arithmetic (every row is
    kept as integers up to a positive factor: row_i <- piv * row_i - row_i[e] * row_l, divided by its gcd)."""
    import math
    rows = []
    for c in [c for c in cs if c] + [neg_goal]:
        den = 1
        for v in c.values():
            d = v.denominator
            if d != 1:
                den = den * d // math.gcd(den, d)
        if den == 1:
            rows.append({m: v.numerator for m, v in c.items()})
        else:
            rows.append({m: int(v * den) for m, v in c.items()})
    monos = sorted({m for r in rows for m in r if m != ()})
    if not monos:
        return any(r.get((), 0) > 0 for r in rows)
    idx = {m: i for i, m in enumerate(monos)}
    n, m_ = len(monos), len(rows)
    ncol = m_ + 1                       # y_0..y_{m-1}, slack ; last entry of a row = right-hand side
    T = [[0] * (ncol + 1) for _ in range(n + 1)]
    for j, r in enumerate(rows):
        for mo, c in r.items():
            if mo != ():
                T[idx[mo]][j] = c
        T[n][j] = 1
    T[n][m_] = 1
    T[n][ncol] = 1
    basis = [-1] * n + [m_]              # -1: artificial of an equality row (fixed at zero, never re-enters)
    z = [r.get((), 0) for r in rows] + [0, 0]          # reduced costs | -value

    def normalise(row):
        g = 0
        for x in row:
            if x:
                g = math.gcd(g, x if x > 0 else -x)
                if g == 1:
                    return row
        return [x // g for x in row] if g > 1 else row
    for _ in range(5000):
        enter = -1
        for j in range(ncol):
            if z[j] > 0:
                enter = j
                break
        if enter < 0:
            return z[ncol] < 0
        leave = -1
        for i in range(n):
            if basis[i] == -1 and T[i][enter] != 0:
                leave = i
                if T[i][enter] < 0:
                    T[i] = [-x for x in T[i]]          # right-hand side is 0
                break
        if leave < 0:
            for i in range(n + 1):
                if basis[i] != -1 and T[i][enter] > 0:
                    if leave < 0:
                        leave = i
                    else:
                        l_, r_ = T[i][ncol] * T[leave][enter], T[leave][ncol] * T[i][enter]
                        if l_ < r_ or (l_ == r_ and basis[i] < basis[leave]):
                            leave = i
            if leave < 0:
                return True
        rowl = T[leave]
        piv = rowl[enter]
        for i in range(n + 1):
            if i != leave:
                f = T[i][enter]
                if f:
                    ri = T[i]
                    T[i] = normalise([piv * x - f * y for x, y in zip(ri, rowl)])
        f = z[enter]
        if f:
            z = normalise([piv * x - f * y for x, y in zip(z, rowl)])
        basis[leave] = enter
        if z[ncol] < 0:
            return True
    return False


def fm_refute(cs, neg_goal):
    """True iff {p <= 0 for p in cs} /\ neg_goal <= 0 has no rational solution (monomials = independent variables).
    Fourier-Motzkin on integer rows (cross-multiplication, gcd normalisation).  The facts alone are assumed satisfiable (they
    describe a reachable state), so the search stops as soon as no row derived from the negated goal is left."""
    import math

    def to_row(c):
        den = 1
        for v in c.values():
            den = den * v.denominator // math.gcd(den, v.denominator)
        r = {m: int(v * den) for m, v in c.items()}
        g = 0
        for v in r.values():
            g = math.gcd(g, abs(v))
        if g > 1:
            r = {m: v // g for m, v in r.items()}
        return r
    rows = []
    seen = set()
    for c in cs:
        if not c:
            continue
        r = to_row(c)
        k = tuple(sorted(r.items()))
        if k not in seen:
            seen.add(k)
            rows.append((r, False))
    rows.append((to_row(neg_goal), True))
    for _ in range(200):
        tainted = False
        for r, t in rows:
            if len(r) == 1 and () in r and r[()] > 0:
                return True
            tainted = tainted or t
        if not tainted:
            return False
        cnt = {}
        for r, t in rows:
            for m, v in r.items():
                if m != ():
                    d = cnt.setdefault(m, [0, 0])
                    d[0 if v > 0 else 1] += 1
        if not cnt:
            return False
        one_sided = {m for m, d in cnt.items() if d[0] == 0 or d[1] == 0}
        if one_sided:
            rows = [(r, t) for r, t in rows if not (one_sided & r.keys())]
            continue
        # eliminate a variable of a tainted row first (keeps the goal-derived part small)
        tv = set()
        for r, t in rows:
            if t:
                tv |= {m for m in r if m != ()}
        pool = [m for m in cnt if m in tv] or list(cnt)
        v = min(pool, key=lambda m: cnt[m][0] * cnt[m][1] - cnt[m][0] - cnt[m][1])
        pos = [(r, t) for r, t in rows if r.get(v, 0) > 0]
        neg = [(r, t) for r, t in rows if r.get(v, 0) < 0]
        rest = [(r, t) for r, t in rows if v not in r]
        if len(pos) * len(neg) > CAP_COMB:
            return False
        seen = {tuple(sorted(r.items())) for r, t in rest}
        for p_, tp in pos:
            pc = p_[v]
            for n_, tn in neg:
                nc = -n_[v]
                comb = {}
                for m, c in p_.items():
                    if m != v:
                        comb[m] = c * nc
                for m, c in n_.items():
                    if m != v:
                        x = comb.get(m, 0) + c * pc
                        if x:
                            comb[m] = x
                        else:
                            comb.pop(m, None)
                if not comb:
                    continue
                if len(comb) == 1 and () in comb:
                    if comb[()] > 0:
                        return True
                    continue
                g = 0
                for c in comb.values():
                    g = math.gcd(g, abs(c))
                if g > 1:
                    comb = {m: c // g for m, c in comb.items()}
                k = tuple(sorted(comb.items()))
                if k not in seen:
                    seen.add(k)
                    rest.append((comb, tp or tn))
        rows = rest
        if len(rows) > CAP_ROWS:
            return False
    return False


# ---- abstract state ---------------------------------------------------------------------------------------------------------------
class RState:
    __slots__ = ('vals', 'facts', 'bodies')

    def __init__(self):
        self.vals = {}        # local -> value tuple
        self.facts = {}       # fact id -> poly
        self.bodies = {}      # id of the non-constant part -> (constant, fact id): only the strongest constant is kept

    def copy(self):
        s = RState()
        s.vals = dict(self.vals)
        s.facts = dict(self.facts)
        s.bodies = dict(self.bodies)
        return s

    def add(self, p):
        if not p:
            return
        if not [m for m in p if m != ()]:
            return
        p = tighten(p)
        p = norm(p)
        k0 = p.get((), Fraction(0))
        bk = ckey({m: c for m, c in p.items() if m != ()})
        old = self.bodies.get(bk)
        if old is not None:
            if old[0] >= k0 and old[1] in self.facts:
                return          # an equal or stronger fact is present
            self.facts.pop(old[1], None)
        k = ckey(p)
        self.facts[k] = p
        self.bodies[bk] = (k0, k)

    def remove(self, k):
        self.facts.pop(k, None)

    def same(self, o):
        return self.vals == o.vals and self.facts.keys() == o.facts.keys()


class Site:
    __slots__ = ('block', 'kind', 'desc', 'sig', 'ok', 'goal', 'line')

    def __init__(self, block, kind, desc, sig, line):
        self.block, self.kind, self.desc, self.sig, self.line = block, kind, desc, sig, line
        self.ok = None
        self.goal = None


VEC_LEN_RX = re.compile(r'^(std::vec::Vec::<T, A>::len|core::slice::<impl \[T\]>::len|std::slice::<impl \[T\]>::len)$')
INDEX_RX = re.compile(r'^(<std::vec::Vec<T, A> as std::ops::Index(Mut)?<I>>::index(_mut)?|core::slice::index::<impl std::ops::Index(Mut)?<I> for \[T\]>::index(_mut)?)$')
DEREF_RX = re.compile(r'^<std::vec::Vec<T, A> as std::ops::Deref(Mut)?>::deref(_mut)?$')
RANGE_NEXT_RX = re.compile(r'^std::iter::range::<impl std::iter::Iterator for std::ops::Range<A>>::next$')
UNWRAP_RX = re.compile(r'^std::option::Option::<T>::(unwrap|expect)$')
READ_INT_RX = re.compile(r'byteorder::ReadBytesExt::read_(u8|u16|u32|i8)$')


class Analysis:
    """analysis of one body; `entry_facts(an)` may seed facts over the parameter atoms (preconditions proved at call sites)"""

    def __init__(self, prog, body, prover=None, entry=None, templates=(), max_passes=14):
        self.P, self.b = prog, body
        self.prover = prover or Prover()
        self.nonneg = set()
        self.ranges = {}            # atom -> (lo, hi) type range facts
        self.entry = entry
        self.templates = list(templates)      # polys over symbols 'v:<name>' / 'vp:<name>' (payload) / global atoms
        self.in_states = {}
        self.sites = {}
        self.max_passes = max_passes
        self.visits = {}
        self.named = {i: l.get('name') for i, l in enumerate(body.locals) if l.get('name')}
        self.call_states = {}       # block -> state before the call (for call-site preconditions)
        self.stable = False
        self.templates += self.increment_templates()

    # -- atoms
    def atom(self, name, ty=None, lo=None, hi=None):
        ib = int_bits(ty) if ty else None
        if ib and not ib[1]:
            self.nonneg.add(name)
            self.ranges[name] = (0, MAXV[ib[0]])
        elif ib:
            self.ranges[name] = (-(1 << (ib[0] - 1)), (1 << (ib[0] - 1)) - 1)
        if lo is not None:
            self.ranges[name] = (lo, hi)
            if lo >= 0:
                self.nonneg.add(name)
        return A(name)

    def range_facts(self, atoms):
        out = []
        for a in atoms:
            r = self.ranges.get(a)
            if r:
                out.append(padd(A(a), const(r[1]), -1))           # a - hi <= 0
                if r[0] != 0 or a not in self.nonneg:
                    out.append(padd(const(r[0]), A(a), -1))
        return out

    def quick_hi(self, p):
        """upper bound of a polynomial from the atoms' type ranges alone (interval arithmetic), or None"""
        hi = Fraction(0)
        for m, c in p.items():
            lo_m, hi_m = Fraction(1), Fraction(1)
            for a in m:
                r = self.ranges.get(a)
                if r is None or r[0] < 0:
                    return None
                lo_m, hi_m = lo_m * r[0], hi_m * r[1]
            hi += c * (hi_m if c > 0 else lo_m)
        return hi

    def guarded_atoms(self, st):
        """payload atoms of options that may be None and whose payload has not been extracted in this state: facts about them are
        guarded facts ("if the option is Some") and must not be used - also after the option itself has been overwritten"""
        pa = getattr(self, 'payload_atoms', None)
        if not pa:
            return ()
        live = set()
        for v in st.vals.values():
            k = v[0]
            if k == 'opt':
                if v[1] == 'Some' and v[2] is not None:
                    for m in v[2]:
                        live.update(m)
            else:
                for x in v[1:]:
                    if isinstance(x, dict):
                        for m in x:
                            live.update(m)
        return pa - live

    def poly_hi(self, p, st):
        """constant upper bound of p in state st: interval arithmetic over the atoms' best constant bounds (type range or a fact `c*a + k <= 0`)"""
        his = {}
        for a in atoms_of(p):
            r = self.ranges.get(a)
            if r is None or r[0] < 0:
                return None
            his[a] = Fraction(r[1])
        for f_ in st.facts.values():
            if len(f_) <= 2:
                ks = [m for m in f_ if m != ()]
                if len(ks) == 1 and len(ks[0]) == 1 and ks[0][0] in his and f_[ks[0]] > 0:
                    b_ = -f_.get((), Fraction(0)) / f_[ks[0]]
                    if b_ < his[ks[0][0]]:
                        his[ks[0][0]] = b_
        hi = Fraction(0)
        for m, c in p.items():
            if c > 0:
                t = Fraction(1)
                for a in m:
                    t *= his[a]
                hi += c * t
        return hi

    def prove(self, st, goal, extra=()):
        if not goal:
            return True
        if not [m for m in goal if m != ()]:
            return goal.get((), 0) <= 0
        q = self.quick_hi(goal)
        if q is not None and q <= 0:
            return True
        # relevance: facts connected to the goal through shared atoms (3 hops, at most 70)
        rel = set(atoms_of(goal))
        pool = dict(st.facts)
        # a fact about the payload of an Option that is not known to be Some is a *guarded* fact (it holds if the option is Some):
        # it may only be used once the payload is a definite value (tag Some, or the payload has been extracted by unwrap / a match)
        guarded = self.guarded_atoms(st)
        if guarded:
            pool = {k: f for k, f in pool.items() if not (fact_atoms(k, f) & guarded)}
        for e in extra:
            pool[ckey(e)] = e
        chosen = {}
        for hop in range(3):
            new = {k: f for k, f in pool.items() if fact_atoms(k, f) & rel}
            if not new:
                break
            for k, f in new.items():
                rel |= fact_atoms(k, f)
                chosen[k] = f
                del pool[k]
            if len(chosen) > 70:
                break
        key = (frozenset(chosen), ckey(goal))
        r = self.prover.cache.get(key)
        if r is not None:
            return r
        self.prover.queries += 1
        facts = list(chosen.values())[:90]
        r = self.prover._entails(facts + self.range_facts(rel), goal, self.nonneg)
        self.prover.cache[key] = r
        return r

    # -- values
    def local_ty(self, l):
        return self.b.locals[l]['ty']

    def param_field(self, pl):
        """stable atom / slice value for a field path of a by-value or by-reference parameter that is never written"""
        l = pl['l']
        if not (1 <= l <= self.b.arg_count) or not pl['p'] or ('partial', l) in self.b.defs or l in self.b.defs:
            return None
        names = []
        for p in pl['p']:
            if p['k'] == 'deref':
                continue
            if p['k'] != 'field':
                return None
            names.append(p['name'])
        ty = pl['p'][-1].get('ty')
        key = '%d_%s' % (l, '_'.join(names))
        if int_bits(ty):
            return ('i', self.atom('F' + key, ty))
        if ty and (re.match(r'^std::vec::Vec<', ty) or re.match(r'^&?(mut )?\[', ty)):
            return ('vec', self.atom('G' + key, None, 0, LEN_MAX), None)
        return None

    def read_place(self, st, pl):
        v = st.vals.get(pl['l'])
        if v is None:
            return self.param_field(pl)
        if v[0] == 'palias':
            # a local holding a moved / copied parameter (`self` handed to an inlined helper): its fields are the parameter's fields
            src = json.loads(v[1])
            return self.read_place(st, {'l': src['l'], 'p': list(src['p']) + list(pl['p'])}) if pl['p'] else v
        for p in pl['p']:
            if v is None:
                return None
            k = p['k']
            if k == 'field':
                if v[0] == 'tup':
                    v = ('i', v[1]) if p['i'] == 0 else None
                elif v[0] == 'opt' and p['i'] == 0:
                    v = ('i', v[2]) if v[2] is not None else None
                elif v[0] == 'optdc' and p['i'] == 0:
                    v = ('i', v[1]) if v[1] is not None else None
                elif v[0] == 'range':
                    v = ('i', v[1 + p['i']]) if p['i'] in (0, 1) and v[1 + p['i']] is not None else None
                elif v[0] == 'wrapdc' and p['i'] == 0:
                    v = v[1]
                else:
                    v = None
            elif k == 'downcast':
                if v[0] == 'opt':
                    v = ('optdc', v[2])
                elif v[0] == 'wrap' and p.get('variant') in ('Ok', 'Some', 'Continue') and v[1] is not None:
                    v = ('wrapdc', v[1])
                else:
                    v = None
            elif k == 'deref':
                if v[0] == 'ref':
                    v = st.vals.get(v[1])
                elif v[0] in ('slice',):
                    pass
                else:
                    v = None
            else:
                v = None
        return v

    def operand(self, st, op):
        if not isinstance(op, dict):
            return None
        if op.get('k') == 'const':
            if op.get('val') is not None and int_bits(op.get('ty')):
                return ('i', const(op['val']))
            if op.get('ty') == 'bool' and op.get('val') is not None:
                return ('i', const(op['val']))
            return None
        if is_place_op(op):
            return self.read_place(st, op['place'])
        return None

    def ipoly(self, st, op):
        v = self.operand(st, op)
        if v is not None and v[0] == 'i':
            return v[1]
        return None

    def fresh_for(self, st, l, tag):
        """unknown integer result: a fresh atom with the type's range"""
        ty = self.local_ty(l)
        if int_bits(ty):
            name = '%s%d' % (tag, l)
            self.kill_atom(st, name)
            return ('i', self.atom(name, ty))
        return None

    def kill_atom(self, st, name):
        for k in [k for k, f in st.facts.items() if name in atoms_of(f)]:
            del st.facts[k]
        for l in [l for l, v in st.vals.items() if self.mentions(v, name)]:
            del st.vals[l]

    @staticmethod
    def mentions(v, name):
        for x in v[1:]:
            if isinstance(x, dict) and name in atoms_of(x):
                return True
            if isinstance(x, tuple) and x and Analysis.mentions(x, name):
                return True
        return False

    def kill_local(self, st, l):
        st.vals.pop(l, None)
        # references to it keep pointing at it (they see the new value); nothing else to do

    # -- transfer
    def assign(self, st, pl, rv, b):
        l = pl['l']
        if pl['p']:
            # store through a projection: *r = v  /  x.f = v  / slice[i] = v
            if pl['p'][0]['k'] == 'deref':
                r = st.vals.get(l)
                if r is not None and r[0] == 'ref' and len(pl['p']) == 1:
                    tgt = r[1]
                    v = self.rvalue(st, rv, tgt, b)
                    self.kill_local(st, tgt)
                    if v is not None:
                        st.vals[tgt] = v
                # writes into slices / other memory do not change any tracked integer
                return
            v0 = st.vals.get(l)
            if v0 is not None and v0[0] in ('slice', 'vec'):
                return          # element store: length unchanged
            self.kill_local(st, l)
            return
        v = self.rvalue(st, rv, l, b)
        self.kill_local(st, l)
        if v is not None:
            st.vals[l] = v

    def rvalue(self, st, rv, l, b):
        k = rv['rv']
        if k == 'use':
            v = self.operand(st, rv['op'])
            if v is None and int_bits(self.local_ty(l)):
                return self.fresh_for(st, l, 'M%d_' % b)
            if v is None and is_place_op(rv['op']):
                pl = rv['op']['place']
                if 1 <= pl['l'] <= self.b.arg_count and pl['l'] not in self.b.defs and ('partial', pl['l']) not in self.b.defs \
                        and all(p['k'] == 'field' for p in pl['p']):
                    return ('palias', json.dumps(pl, sort_keys=True))
            return v
        if k == 'cast':
            if rv.get('kind') != 'IntToInt':
                return None
            p = self.ipoly(st, rv['op'])
            tb = int_bits(rv.get('ty'))
            if p is None or tb is None:
                return self.fresh_for(st, l, 'K%d_' % b)
            hi = MAXV[tb[0]] if not tb[1] else (1 << (tb[0] - 1)) - 1
            lo = 0 if not tb[1] else -(1 << (tb[0] - 1))
            # value preserving iff the operand provably fits
            if self.prove(st, padd(p, const(hi), -1)) and self.prove(st, padd(const(lo), p, -1)):
                return ('i', p)
            return self.fresh_for(st, l, 'K%d_' % b)
        if k == 'bin':
            opn = rv['op']
            a, c = self.ipoly(st, rv['l']), self.ipoly(st, rv['r'])
            base = opn.replace('WithOverflow', '').replace('Unchecked', '')
            if base in ('Eq', 'Ne', 'Lt', 'Le', 'Gt', 'Ge'):
                if a is not None and c is not None:
                    return ('cmp', base, a, c)
                return None
            if a is not None and c is not None and base in ('Add', 'Sub', 'Mul'):
                r = padd(a, c) if base == 'Add' else padd(a, c, -1) if base == 'Sub' else pmul(a, c)
                if max([len(m) for m in r] + [0]) > 3:
                    r = None
                if r is not None:
                    return ('tup', r) if opn.endswith('WithOverflow') else ('i', r)
            if opn.endswith('WithOverflow'):
                f = self.fresh_for_ty(st, rv.get('int'), 'T%d_%d' % (b, l))
                return ('tup', f) if f is not None else None
            def cval(p_):
                return int(p_.get((), 0)) if p_ is not None and not [m for m in p_ if m != ()] else None
            if base == 'BitAnd' and (cval(c) is not None or cval(a) is not None):
                mask = cval(c) if cval(c) is not None else cval(a)
                if mask >= 0:
                    name = 'B%d_%d' % (b, l)
                    self.kill_atom(st, name)
                    at = self.atom(name, None, 0, mask)
                    other = a if cval(c) is not None else c
                    if other is not None:
                        st.add(padd(at, other, -1))      # x & m <= x   (x unsigned)
                    if mask > 0:
                        # x & m is a multiple of 2^k (k = trailing zero bits of m): non-zero means >= 2^k
                        self.__dict__.setdefault('gran', {})[name] = mask & -mask
                    return ('i', at)
            if base == 'Shl' and a is not None and cval(c) is not None and 0 <= cval(c) < 63:
                tb_ = int_bits(self.local_ty(l))
                r = {m: v * (1 << cval(c)) for m, v in a.items()}
                if tb_ and not tb_[1] and self.prove(st, padd(r, const(MAXV[tb_[0]]), -1)):
                    return ('i', r)         # no bit is shifted out: x << k = x * 2^k
            if base in ('Shr', 'Div') and a is not None:
                name = 'S%d_%d' % (b, l)
                self.kill_atom(st, name)
                at = self.fresh_for(st, l, 'S%d_' % b)
                if at is not None:
                    kk = op_const(rv['r'])
                    if base == 'Shr' and kk is not None and 0 <= kk < 64:
                        st.add(padd({m: c_ * (1 << kk) for m, c_ in at[1].items()}, a, -1))      # (x >> k) * 2^k <= x
                    elif base == 'Div' and kk is not None and kk > 0:
                        st.add(padd({m: c_ * kk for m, c_ in at[1].items()}, a, -1))
                    else:
                        st.add(padd(at[1], a, -1))           # x >> k <= x, x / k <= x
                return at
            return self.fresh_for(st, l, 'O%d_' % b)
        if k == 'un':
            if rv['op'] == 'Not':
                p = self.ipoly(st, rv['x'])
                tb = int_bits(self.local_ty(l))
                if p is not None and tb and not tb[1] and not [m for m in p if m != ()]:
                    cv = int(p.get((), 0))
                    return ('i', const((~cv) & MAXV[tb[0]]))
            if rv['op'] == 'PtrMetadata':
                v = self.operand(st, rv['x'])
                if v is not None and v[0] in ('slice', 'vec'):
                    return ('i', v[1])
            return self.fresh_for(st, l, 'U%d_' % b)
        if k in ('ref', 'rawptr'):
            pl = rv['place']
            if not pl['p']:
                v = st.vals.get(pl['l'])
                if v is not None and v[0] in ('slice', 'vec'):
                    return ('slice', v[1], pl['l'])
                return ('ref', pl['l'])
            if len(pl['p']) == 1 and pl['p'][0]['k'] == 'deref':
                v = st.vals.get(pl['l'])
                if v is not None and v[0] in ('ref', 'slice'):
                    return v
            v = self.read_place(st, pl)
            if v is not None and v[0] in ('slice', 'vec'):
                return ('slice', v[1], v[2] if len(v) > 2 else None)
            return None
        if k == 'len':
            v = self.read_place(st, rv['place']) if rv.get('place') else None
            if v is not None and v[0] in ('slice', 'vec'):
                return ('i', v[1])
            return self.fresh_for(st, l, 'N%d_' % b)
        if k == 'discr':
            pl = rv['place']
            if not pl['p']:
                return ('discr', pl['l'])
            return None
        if k == 'agg':
            if rv.get('kind') == 'adt' and rv.get('adt') == 'std::option::Option':
                if rv['variant'] == 'None':
                    return ('opt', 'None', None)
                p = self.ipoly(st, rv['ops'][0]) if rv['ops'] else None
                return ('opt', 'Some', p)
            if rv.get('kind') == 'adt' and rv.get('adt') in ('std::result::Result', 'std::ops::ControlFlow') and rv['variant'] in ('Ok', 'Continue') \
                    and len(rv['ops']) == 1:
                # Ok(buffer): the buffer (and its length) travels inside the Result through `?` (a helper returning RdpResult<Vec<..>>)
                v = self.operand(st, rv['ops'][0])
                if v is not None and v[0] in ('vec', 'slice'):
                    return ('wrap', ('vec', v[1]))
                return None
            if rv.get('kind') == 'adt' and rv.get('adt') in ('std::result::Result', 'std::ops::ControlFlow') and rv['variant'] in ('Err', 'Break') \
                    and re.search(r'^std::vec::Vec<', (rv.get('args') or [''])[0 if rv['adt'] == 'std::result::Result' else -1] or ''):
                return ('wrap', None)       # no buffer inside: vacuous at joins (the payload is never read on such a path)
            if rv.get('kind') == 'adt' and rv.get('adt') in ('std::ops::Range', 'std::ops::RangeFrom', 'std::ops::RangeTo'):
                ps = [self.ipoly(st, o) for o in rv['ops']]
                if rv['adt'] == 'std::ops::Range':
                    return ('range', ps[0], ps[1])
                if rv['adt'] == 'std::ops::RangeFrom':
                    return ('range', ps[0], None)
                return ('range', const(0), ps[0])
            return None
        return None

    def fresh_for_ty(self, st, int_info, name):
        if not int_info:
            return None
        self.kill_atom(st, name)
        bits, signed = int_info
        if signed:
            return self.atom(name, None, -(1 << (bits - 1)), (1 << (bits - 1)) - 1)
        self.nonneg.add(name)
        self.ranges[name] = (0, MAXV[bits])
        return A(name)

    # -- calls
    def do_call(self, st, c, b):
        name = c.callee
        dl = c.dest['l'] if not c.dest['p'] else None
        args = [self.operand(st, a) for a in c.args]
        res = None
        self.call_states[b] = (st.copy(), args)
        if VEC_LEN_RX.match(name) and args and args[0] is not None and args[0][0] in ('slice', 'vec'):
            res = ('i', args[0][1])
        elif name == 'std::vec::from_elem' and len(args) == 2 and args[1] is not None and args[1][0] == 'i':
            res = ('vec', args[1][1])
        elif DEREF_RX.match(name) and args and args[0] is not None and args[0][0] in ('slice', 'vec'):
            res = ('slice', args[0][1], args[0][2] if len(args[0]) > 2 else None)
        elif INDEX_RX.match(name) and len(args) == 2 and args[0] is not None and args[0][0] in ('slice', 'vec'):
            ln = args[0][1]
            ix = args[1]
            s = self.site(b, 'sliceindex', '%s at %s' % (name.rsplit('::', 1)[-1], c.where()), 'index:%s' % name.rsplit('::', 1)[-1], c.line)
            if ix is not None and ix[0] == 'i':
                self.decide(s, st, padd(padd(ix[1], const(1)), ln, -1))           # ix + 1 <= len
            elif ix is not None and ix[0] == 'range':
                ok = True
                lo, hi = ix[1], ix[2]
                if hi is not None:
                    ok = ok and self.prove(st, padd(hi, ln, -1)) and (lo is None or self.prove(st, padd(lo, hi, -1)))
                    res = ('slice', padd(hi, lo if lo is not None else {}, -1), None)
                else:
                    ok = ok and self.prove(st, padd(lo, ln, -1))
                    res = ('slice', padd(ln, lo, -1), None)
                self.record(s, ok, None)
            else:
                self.record(s, False, None)
        elif UNWRAP_RX.match(name) and args and args[0] is not None and args[0][0] == 'opt':
            if args[0][2] is not None:
                res = ('i', args[0][2])
            # after a successful unwrap the option is Some (failure is a panic: its own obligation)
            if is_place_op(c.args[0]) and not c.args[0]['place']['p']:
                src = c.args[0]['place']['l']
                for _ in range(4):
                    v0 = st.vals.get(src)
                    if v0 is not None and v0[0] == 'opt' and src in self.named:
                        st.vals[src] = ('opt', 'Some', v0[2])
                        break
                    ds = self.b.defs.get(src, [])
                    if len(ds) == 1 and ds[0][0] == 'stmt' and ds[0][3]['rv']['rv'] == 'use' and is_place_op(ds[0][3]['rv']['op']) and not ds[0][3]['rv']['op']['place']['p']:
                        src = ds[0][3]['rv']['op']['place']['l']
                    else:
                        break
        elif RANGE_NEXT_RX.match(name) and args and args[0] is not None and args[0][0] == 'ref':
            rl = args[0][1]
            rv = st.vals.get(rl)
            if rv is not None and rv[0] == 'range' and rv[1] is not None and rv[2] is not None:
                iname = 'I%d' % b
                self.kill_atom(st, iname)
                rv = st.vals.get(rl)
                if rv is not None:
                    it = self.atom(iname, 'usize')
                    # Some(i): start <= i = old start, i + 1 <= end ; the iterator advances to i + 1
                    st.vals[rl] = ('range', padd(it, const(1)), rv[2])
                    res = ('optnext', it, rv[1], rv[2])
        elif name.endswith('IntoIterator>::into_iter') and args and args[0] is not None and args[0][0] == 'range':
            res = args[0]
        elif name.endswith('Try>::branch') and args and args[0] is not None and args[0][0] == 'wrap':
            res = args[0]
        elif READ_INT_RX.search(name):
            res = None      # Result<int>: payload handled below as fresh
        # &mut arguments: forget what they point at (except length preserving uses of slices)
        for a, v in zip(c.args, args):
            if v is not None and v[0] == 'ref' and not RANGE_NEXT_RX.match(name):
                tv = st.vals.get(v[1])
                if tv is not None and tv[0] in ('slice', 'vec') and not re.search(r'::(push|resize|truncate|clear|extend\w*|append|insert|remove|pop|drain|reserve|set_len|split_off|retain)$', name):
                    continue
                if tv is not None and tv[0] in ('i', 'opt', 'tup', 'range'):
                    mut = 'mut' in (c.term.get('arg_tys', [''] * len(c.args))[c.args.index(a)] or '')
                    if mut:
                        self.kill_local(st, v[1])
        if dl is not None:
            self.kill_local(st, dl)
            if res is None:
                res = self.result_value(st, c, dl, b)
            if res is not None:
                st.vals[dl] = res

    def result_value(self, st, c, dl, b):
        ty = self.local_ty(dl)
        if int_bits(ty):
            return self.fresh_for(st, dl, 'C%d_' % b)
        m = re.match(r'^std::(?:result::Result|option::Option)<([ui](?:8|16|32|64|size))(?:,.*)?>$', ty)
        if m:
            name = 'C%d_%d' % (b, dl)
            self.kill_atom(st, name)
            self.__dict__.setdefault('payload_atoms', set()).add(name)
            return ('opt', 'Top', self.atom(name, m.group(1)))
        m = re.match(r'^std::ops::ControlFlow<.*, ([ui](?:8|16|32|64|size))>$', ty)
        if m and c.callee.endswith('Try>::branch'):
            a0 = self.operand(st, c.args[0])
            if a0 is not None and a0[0] == 'opt':
                return ('opt', 'Top', a0[2])
        return None

    # -- sites
    def site(self, b, kind, desc, sig, line):
        key = (b, kind, sig)
        s = self.sites.get(key)
        if s is None:
            s = Site(b, kind, desc, sig, line)
            self.sites[key] = s
        return s

    def decide(self, s, st, goal, extra=()):
        ok = self.prove(st, goal, extra)
        self.record(s, ok, goal)
        return ok

    def record(self, s, ok, goal):
        s.ok = ok
        s.goal = goal

    def check_assert(self, st, b, t):
        m = t['msg']
        k = m.get('k')
        line = t['span']['line']
        if k == 'overflow':
            a, c = self.ipoly(st, m['l']), self.ipoly(st, m['r'])
            op = m['op']
            s = self.site(b, 'overflow', 'Overflow(%s)' % op, 'Overflow(%s)#%d' % (op, b), line)
            bits = m.get('int') or [64, False]
            if op in ('Shl', 'Shr'):
                k_ = op_const(m['r'])
                self.record(s, k_ is not None and 0 <= k_ < bits[0], None)
                return None
            if a is None or c is None or op not in ('Add', 'Sub', 'Mul'):
                self.record(s, False, None)
                return None
            r = padd(a, c) if op == 'Add' else padd(a, c, -1) if op == 'Sub' else pmul(a, c)
            hi = MAXV[bits[0]] if not bits[1] else (1 << (bits[0] - 1)) - 1
            lo = 0 if not bits[1] else -(1 << (bits[0] - 1))
            g_hi, g_lo = padd(r, const(hi), -1), padd(const(lo), r, -1)
            if bits[1]:
                ok_hi, ok_lo = self.prove(st, g_hi), self.prove(st, g_lo)
                self.record(s, ok_hi and ok_lo, g_hi if not ok_hi else g_lo)
            elif op == 'Sub':
                self.record(s, self.prove(st, g_lo), g_lo)
            else:
                self.record(s, self.prove(st, g_hi), g_hi)
            # on the continuing edge the operation did not overflow
            return [g_hi, g_lo]
        if k == 'bounds':
            ln, ix = self.ipoly(st, m['len']), self.ipoly(st, m['index'])
            s = self.site(b, 'bounds', 'BoundsCheck', 'Bounds#%d' % b, line)
            if ln is None or ix is None:
                self.record(s, False, None)
                return None
            g = padd(padd(ix, const(1)), ln, -1)
            self.decide(s, st, g)
            return [g]
        s = self.site(b, k or 'assert', str(k), '%s#%d' % (k, b), line)
        if k == 'overflow_neg':
            x = self.ipoly(st, m['x'])
            # -x overflows only for the minimum value of the signed type
            ok = x is not None and self.prove(st, padd(const(-(1 << 62)), x, -1))
            if x is not None and not ok:
                for bits_ in (8, 16, 32):
                    if self.prove(st, padd(const(-(1 << (bits_ - 1)) + 1), x, -1)) and self.prove(st, padd(x, const((1 << (bits_ - 1)) - 1), -1)):
                        ok = True
            self.record(s, ok, None)
            return None
        if k in ('div0', 'rem0'):
            x = self.ipoly(st, m['x'])
            ok = x is not None and self.prove(st, padd(const(1), x, -1))
            self.record(s, ok, None)
            return None
        self.record(s, False, None)
        return None

    # -- edges
    def edge_states(self, st, b):
        """list of (successor, state)"""
        body = self.b
        t = body.blocks[b]['term']
        k = t['t']
        out = []
        if k == 'goto':
            return [(t['target'], st)]
        if k == 'call':
            c = body.call_at(b)
            self.do_call(st, c, b)
            if c.target is not None:
                out.append((c.target, st))
            return out
        if k == 'assert':
            facts = self.check_assert(st, b, t)
            if facts:
                for f in facts:
                    st.add(f)
            return [(t['target'], st)]
        if k == 'drop':
            return [(t['target'], st)]
        if k == 'switch':
            dv = self.operand(st, t['discr'])
            targets = list(zip(t['vals'], t['targets'])) + [(None, t['otherwise'])]
            for val, tg in targets:
                if tg is None:
                    continue
                s2 = st.copy()
                feasible = True
                if dv is not None and dv[0] == 'cmp':
                    truth = None
                    if t['vals'] == [0]:
                        truth = (val is None)
                    elif t['vals'] == [1]:
                        truth = (val == 1)
                    if truth is not None:
                        for f in cmp_facts(dv[1], dv[2], dv[3], truth):
                            s2.add(f)
                        op_ = dv[1] if truth else {'Eq': 'Ne', 'Ne': 'Eq'}.get(dv[1])
                        if op_ == 'Ne':
                            # a != c: strict on the side that is already known
                            gr = None
                            if not dv[3] and len(dv[2]) == 1 and list(dv[2].values())[0] == 1 and len(list(dv[2])[0]) == 1:
                                gr = getattr(self, 'gran', {}).get(list(dv[2])[0][0])
                            if gr:
                                s2.add(padd(const(gr), dv[2], -1))                  # a != 0 and a multiple of 2^k: 2^k <= a
                            elif self.prove(st, padd(dv[3], dv[2], -1)):
                                s2.add(padd(padd(dv[3], dv[2], -1), const(1)))      # c <= a  ->  c + 1 <= a
                            elif self.prove(st, padd(dv[2], dv[3], -1)):
                                s2.add(padd(padd(dv[2], dv[3], -1), const(1)))
                elif dv is not None and dv[0] == 'discr':
                    ov = s2.vals.get(dv[1])
                    if ov is not None and ov[0] in ('opt', 'optnext'):
                        # discriminant of the payload-carrying variant: Some = 1 for Option, Ok / Continue = 0 for Result / ControlFlow
                        pd = 1 if self.local_ty(dv[1]).startswith('std::option::Option') else 0
                        some = None
                        if val is not None:
                            some = (val == pd)
                        elif set(t['vals']) == {1 - pd}:
                            some = True
                        elif set(t['vals']) == {pd}:
                            some = False
                        if ov[0] == 'optnext':
                            if some is True:
                                s2.add(padd(padd(ov[1], const(1)), ov[3], -1))      # i + 1 <= end
                                s2.add(padd(ov[2], ov[1], -1))                       # start <= i
                                s2.add(padd(ov[1], ov[2], -1))                       # i <= start (i == old start)
                                s2.vals[dv[1]] = ('opt', 'Some', ov[1])
                            elif some is False:
                                s2.vals[dv[1]] = ('opt', 'None', None)
                        else:
                            if some is True:
                                if ov[1] == 'None':
                                    feasible = False
                                s2.vals[dv[1]] = ('opt', 'Some', ov[2])
                            elif some is False:
                                if ov[1] == 'Some':
                                    feasible = False
                                s2.vals[dv[1]] = ('opt', 'None', None)
                elif dv is not None and dv[0] == 'i' and val is not None:
                    s2.add(padd(dv[1], const(val), -1))
                    s2.add(padd(const(val), dv[1], -1))
                if feasible:
                    out.append((tg, s2))
            return out
        return out

    # -- joins
    def join(self, B, preds, back=None):
        """preds: list of states flowing into B; back: for a loop head, flags telling which of them are back edges"""
        visit = self.visits.get(B, 0)
        new = RState()
        subs = []           # per pred: phi atom -> poly
        for _ in preds:
            subs.append({})
        locals_ = set(preds[0].vals)
        for p in preds[1:]:
            locals_ &= set(p.vals)
        for l in sorted(locals_):
            vs = [p.vals[l] for p in preds]
            if all(v == vs[0] for v in vs):
                new.vals[l] = vs[0]
                continue
            kinds = {v[0] for v in vs}
            if kinds == {'i'} or kinds == {'tup'}:
                phi = 'J%d_%d' % (B, l)
                at = self.atom(phi, self.local_ty(l) if kinds == {'i'} else None)
                if kinds == {'tup'}:
                    self.nonneg.discard(phi)
                for i, v in enumerate(vs):
                    subs[i][phi] = v[1]
                new.vals[l] = (vs[0][0], at)
            elif kinds <= {'opt'}:
                tags = {v[1] for v in vs}
                tag = tags.pop() if len(tags) == 1 else 'Top'
                pays = [v[2] for v in vs]
                defined = [p for p in pays if p is not None]
                if not defined:
                    new.vals[l] = ('opt', tag, None)
                elif all(p == defined[0] for p in defined):
                    # preds where the option is None carry no payload: vacuous
                    if all(v[2] is not None or v[1] == 'None' for v in vs):
                        new.vals[l] = ('opt', tag, defined[0])
                        pay = defined[0]
                        if len(pay) == 1 and list(pay.values())[0] == 1 and len(list(pay)[0]) == 1:
                            a_ = list(pay)[0][0]
                            for i, v in enumerate(vs):
                                if v[2] is None and not any(self.mentions(ov, a_) for ol, ov in preds[i].vals.items() if ol != l) \
                                        and not any(a_ in atoms_of(f_) for f_ in preds[i].facts.values()):
                                    subs[i][a_] = None       # facts about the payload are vacuous on this edge (the option is None there)
                    else:
                        new.vals[l] = ('opt', tag, None)
                else:
                    if not all(v[2] is not None or v[1] == 'None' for v in vs):
                        new.vals[l] = ('opt', tag, None)
                        continue
                    phi = 'J%d_%dp' % (B, l)
                    m = re.match(r'^std::option::Option<([ui](?:8|16|32|64|size))>$', self.local_ty(l))
                    at = self.atom(phi, m.group(1) if m else None)
                    self.__dict__.setdefault('payload_atoms', set()).add(phi)
                    for i, v in enumerate(vs):
                        if v[2] is not None:
                            subs[i][phi] = v[2]
                        else:
                            subs[i][phi] = None          # vacuous
                    new.vals[l] = ('opt', tag, at)
            elif kinds <= {'slice', 'vec'} and all(v[1] == vs[0][1] for v in vs):
                new.vals[l] = ('slice', vs[0][1], None)
            elif kinds <= {'slice', 'vec'}:
                phi = 'J%d_%dl' % (B, l)
                at = self.atom(phi, None, 0, LEN_MAX)
                for i, v in enumerate(vs):
                    subs[i][phi] = v[1]
                new.vals[l] = ('slice' if 'slice' in kinds else 'vec', at, None)
            elif kinds == {'wrap'}:
                inner = [v[1] for v in vs if v[1] is not None]
                if not inner:
                    new.vals[l] = ('wrap', None)
                elif all(x == inner[0] for x in inner):
                    new.vals[l] = ('wrap', inner[0])
                else:
                    phi = 'J%d_%dw' % (B, l)
                    at = self.atom(phi, None, 0, LEN_MAX)
                    for i, v in enumerate(vs):
                        subs[i][phi] = v[1][1] if v[1] is not None else None
                    new.vals[l] = ('wrap', ('vec', at))
            elif kinds == {'range'}:
                if all(v[2] == vs[0][2] for v in vs) and all(v[1] is not None for v in vs):
                    phi = 'J%d_%ds' % (B, l)
                    at = self.atom(phi, 'usize')
                    for i, v in enumerate(vs):
                        subs[i][phi] = v[1]
                    new.vals[l] = ('range', at, vs[0][2])
            # other kinds: dropped
        # candidates
        cands = {}
        prev = self.in_states.get(B) if B in getattr(self, 'loops', {}) else None
        if prev is not None:
            for k, f in prev.facts.items():
                cands[k] = f
        # Houdini at loop heads: when the shape of the head state changes (first join, or new join variables appeared) the candidates are
        # generated and *assumed*: checked against the entry edges only; afterwards the set only shrinks, filtered against all edges
        # (the back edges have then been computed under the assumption).  The fixpoint keeps exactly the inductive ones.
        generate = visit < 3
        optimistic = False
        if back is not None and any(back):
            shape_changed = prev is None or prev.vals != new.vals
            generate = shape_changed and visit < 8
            optimistic = generate
        if generate:
            for i, p in enumerate(preds):
                inv = self.inverse(subs[i])
                for f in p.facts.values():
                    cands.setdefault(ckey(f), f)
                    if inv and atoms_of(f) & inv.keys():
                        g = norm(psubst(f, inv))
                        cands.setdefault(ckey(g), g)
            is_head = B in getattr(self, 'loops', {})
            # hull candidates: phi against the value it has on each incoming edge
            for i, s_ in enumerate(subs):
                for phi, p in s_.items():
                    if p is not None:
                        for g in (padd(A(phi), p, -1), padd(p, A(phi), -1)):
                            cands.setdefault(ckey(norm(g)), norm(g))
            # constant bound of a join variable: the largest upper bound its value has on any incoming edge (from the atoms' ranges)
            allphis = set()
            for s_ in subs:
                allphis |= {phi for phi, p in s_.items() if p is not None}
            for phi in allphis:
                his = []
                for i, s_ in enumerate(subs):
                    p = s_.get(phi)
                    if p is None:
                        continue
                    his.append(self.poly_hi(p, preds[i]))
                if his and all(h_ is not None for h_ in his):
                    g = padd(A(phi), const(max(his)), -1)
                    if max(his) < (1 << 40):
                        cands.setdefault(ckey(norm(g)), norm(g))
            for g in (self.increment_candidates(preds, subs) if is_head else []):
                cands.setdefault(ckey(norm(g)), norm(g))
            for g in (self.template_candidates(new) if is_head else []):
                cands.setdefault(ckey(norm(g)), norm(g))
        phis = set()
        for s_ in subs:
            phis |= set(s_)
        visible = self.visible_atoms(new, phis)
        if DEBUG and B == int(os.environ.get('RELINV_JOIN', '-1')):
            import sys as _s
            for i, p in enumerate(preds):
                _s.stderr.write('   join %d visit %d pred %d: %s | vacuous %s\n' % (B, visit, i, {self.named[l]: (v[0], v[1] if v[0] == 'opt' else '', pshow(v[2]) if v[0] == 'opt' and v[2] is not None else None)
                                                                                 for l, v in p.vals.items() if self.named.get(l) in ('line', 'prevline')},
                                                                               [a for a, x in subs[i].items() if x is None]))
        acc = [[] for _ in preds]
        for k, f in sorted(cands.items(), key=lambda kv: (max([len(m) for m in kv[1]] + [0]), len(kv[1]), kv[0])):
            at = atoms_of(f)
            if not f or not at <= visible:
                continue
            if abs(f.get((), 0)) >= (1 << 60) and any(len(m) >= 2 for m in f):
                continue        # artefact of a type-range bound multiplied through: useless, and such families converge one fact per iteration
            ok = True
            inst = []
            for i, p in enumerate(preds):
                if any(a in subs[i] and subs[i][a] is None for a in at):
                    inst.append(None)
                    continue        # vacuous for this pred (payload of a None)
                if optimistic and back[i] and k not in (prev.facts if prev is not None else {}):
                    inst.append(None)
                    continue        # newly generated candidate: assumed for this iteration, verified on the next
                g = psubst(f, {a: s for a, s in subs[i].items() if s is not None})
                inst.append(g)
                if ckey(g) in p.facts:
                    continue
                if not self.prove(p, g) and not (acc[i] and self.prove(p, g, acc[i])):
                    ok = False
                    break
            if DEBUG and B == int(os.environ.get('RELINV_JOIN', '-1')):
                import sys as _s
                _s.stderr.write('   join %d visit %d cand %s -> %s (failed pred %s)\n' % (B, visit, pshow(f), ok, (len(inst) - 1) if not ok else '-'))
            if ok:
                for i, g in enumerate(inst):
                    if g is not None and g and [m for m in g if m != ()]:
                        acc[i].append(g)
            if ok and not self.trivial(f):
                new.add(f)
        if DEBUG and os.environ.get('RELINV_LOST'):
            import sys as _s
            common = set(preds[0].facts)
            for p in preds[1:]:
                common &= set(p.facts)
            for k in common - set(new.facts):
                if os.environ['RELINV_LOST'] in pshow(preds[0].facts[k]):
                    _s.stderr.write('   LOST at join %d: %s (visible %s)\n' % (B, pshow(preds[0].facts[k]), atoms_of(preds[0].facts[k]) <= visible))
        return new

    def trivial(self, f):
        """entailed by the type ranges alone"""
        return self.prover.entails(self.range_facts(atoms_of(f)), f, self.nonneg)

    def visible_atoms(self, st, phis):
        vis = set(phis)
        for v in st.vals.values():
            for x in v[1:]:
                if isinstance(x, dict):
                    vis |= atoms_of(x)
        vis |= {a for a in self.ranges if a[0] in 'PLFG'}
        return vis

    @staticmethod
    def inverse(sub):
        """rewrite map: pred atom -> polynomial over phi atoms, from phi = +-atom + rest"""
        inv = {}
        for phi, p in sub.items():
            if p is None:
                continue
            lin = [(m, c) for m, c in p.items() if len(m) == 1]
            for m, c in lin:
                a = m[0]
                if a in inv or abs(c) != 1:
                    continue
                if any(a in m2 for m2 in p if m2 != m):
                    continue
                rest = {m2: c2 for m2, c2 in p.items() if m2 != m}
                # phi = c*a + rest  ->  a = (phi - rest) / c
                inv[a] = {m2: c2 / c for m2, c2 in padd(A(phi), rest, -1).items()}
                break
        return inv

    def increment_candidates(self, preds, subs):
        """phi_u - k*phi_v = const relations between counters that advance by constants"""
        out = []
        phis = sorted({a for s in subs for a in s})
        info = {}
        for phi in phis:
            incs, inits = [], []
            for i, s in enumerate(subs):
                p = s.get(phi)
                if p is None:
                    continue
                d = padd(p, A(phi), -1)
                if all(m == () for m in d):
                    incs.append(d.get((), Fraction(0)))
                else:
                    inits.append(p)
            info[phi] = (incs, inits)
        for u in phis:
            for v in phis:
                if u >= v:
                    continue
                iu, nu = info[u]
                iv, nv = info[v]
                if not iu or not iv or len(iu) != len(iv) or len(nu) != 1 or len(nv) != 1:
                    continue
                if any(x == 0 for x in iv):
                    continue
                ks = {a / b_ for a, b_ in zip(iu, iv)}
                if len(ks) != 1:
                    continue
                k = ks.pop()
                if k == 0:
                    continue
                rel = padd(padd(A(u), {m: c * k for m, c in A(v).items()}, -1), padd(nu[0], {m: c * k for m, c in nv[0].items()}, -1), -1)
                if any(a in (u, v) for a in atoms_of(padd(nu[0], nv[0]))):
                    continue
                out.append(rel)
                out.append({m: -c for m, c in rel.items()})
        return out

    def increment_templates(self):
        """a - k*b - c = 0 for named counters a, b that advance by constants (k = ratio of their steps) and a named
        variable c copied from / to a (or 0): the classic induction-variable relations, as candidates only"""
        body = self.b
        inc, related = {}, {}
        tmp = {}
        for bi in range(body.n):
            for stt in body.blocks[bi]['stmts']:
                if stt['s'] != 'assign' or stt['place']['p']:
                    continue
                rv, l = stt['rv'], stt['place']['l']
                if rv['rv'] == 'bin' and rv['op'] in ('AddWithOverflow', 'SubWithOverflow') and is_place_op(rv['l']) and not rv['l']['place']['p'] \
                        and op_const(rv['r']) not in (None, 0):
                    tmp[l] = (rv['l']['place']['l'], op_const(rv['r']) * (1 if rv['op'].startswith('Add') else -1))
                elif rv['rv'] == 'use' and is_place_op(rv['op']):
                    pl = rv['op']['place']
                    if l in self.named and pl['l'] in tmp and len(pl['p']) == 1 and pl['p'][0]['k'] == 'field' and tmp[pl['l']][0] == l:
                        inc.setdefault(l, set()).add(tmp[pl['l']][1])
                    elif l in self.named and not pl['p'] and int_bits(self.local_ty(l)):
                        src = pl['l']
                        for _ in range(4):
                            if src in self.named:
                                break
                            ds = body.defs.get(src, [])
                            if len(ds) == 1 and ds[0][0] == 'stmt' and ds[0][3]['rv']['rv'] == 'use' and is_place_op(ds[0][3]['rv']['op']) \
                                    and not ds[0][3]['rv']['op']['place']['p']:
                                src = ds[0][3]['rv']['op']['place']['l']
                            else:
                                break
                        if src in self.named and src != l:
                            related.setdefault(l, set()).add(src)
                            related.setdefault(src, set()).add(l)
        out = []
        names = sorted(inc)
        for a in names:
            for b_ in names:
                if a == b_:
                    continue
                for ca in inc[a]:
                    for cb in inc[b_]:
                        k = Fraction(ca, cb)
                        if abs(k) < 1 or (abs(k) == 1 and a > b_):
                            continue
                        for c in sorted(related.get(a, set())) + [None]:
                            if c == b_:
                                continue
                            t = padd(A('v:' + self.named[a]), {m: v * k for m, v in A('v:' + self.named[b_]).items()}, -1)
                            if c is not None:
                                t = padd(t, A('v:' + self.named[c]), -1)
                            out.append(t)
                            out.append({m: -v for m, v in t.items()})
        return out[:200]

    def template_candidates(self, st):
        out = []
        if not self.templates:
            return out
        env = {}
        for l, nm in self.named.items():
            v = st.vals.get(l)
            if v is None:
                continue
            if v[0] == 'i':
                env['v:' + nm] = v[1]
            elif v[0] == 'opt' and v[2] is not None:
                env['vp:' + nm] = v[2]
            elif v[0] in ('slice', 'vec'):
                env['vl:' + nm] = v[1]
        for t in self.templates:
            syms = {a for a in atoms_of(t) if a[:2] in ('v:', 'vp', 'vl')}
            if syms <= set(env):
                out.append(psubst(t, {s: env[s] for s in syms}))
        return out

    # -- driver
    def run(self):
        """recursive iteration strategy: every natural loop is iterated to stabilisation (restarting from its entry edges
        only, so no stale back-edge state ever reaches a join) before the analysis continues behind it"""
        body = self.b
        rpo = self.rpo()
        self.order = {b: i for i, b in enumerate(rpo)}
        self.preds = {}
        for b in rpo:
            for s in body.succ[b]:
                if s in self.order:
                    self.preds.setdefault(s, []).append(b)
        # dominators (iterative) and natural loops
        dom = {b: None for b in rpo}
        dom[0] = {0}
        changed = True
        while changed:
            changed = False
            for b in rpo[1:]:
                ps = [dom[p] for p in self.preds.get(b, []) if dom[p] is not None]
                if not ps:
                    continue
                nd = set.intersection(*ps) | {b}
                if nd != dom[b]:
                    dom[b] = nd
                    changed = True
        self.loops = {}
        for b in rpo:
            for s in body.succ[b]:
                if s in self.order and dom[b] is not None and s in dom[b]:
                    lp = self.loops.setdefault(s, {s})
                    stack = [b]
                    while stack:
                        x = stack.pop()
                        if x not in lp:
                            lp.add(x)
                            stack.extend(self.preds.get(x, []))
        entry = RState()
        for i in range(1, body.arg_count + 1):
            ty = self.local_ty(i)
            if int_bits(ty):
                entry.vals[i] = ('i', self.atom('P%d' % i, ty))
            elif re.match(r'^&(mut )?\[.*\]$', ty) or re.match(r'^&(mut )?std::vec::Vec<', ty):
                entry.vals[i] = ('slice', self.atom('L%d' % i, None, 0, LEN_MAX), None)
        if self.entry:
            for f in self.entry(self):
                if not self.trivial(f):
                    entry.add(f)
        self.entry_state = entry
        self.out_edges = {}
        self.block_visits = 0
        self.stable = True
        self.region(rpo, None)
        if not self.stable:
            for s_ in self.sites.values():
                s_.ok = False
        if DEBUG:
            import sys as _s
            _s.stderr.write('  %s: block visits=%d queries=%d memo hits=%d\n' % (body.path, self.block_visits, self.prover.queries, getattr(self, 'memo_hits', 0)))
        return self

    def region(self, blocks, head):
        """visit `blocks` (RPO order); inner loops are handled as components"""
        i = 0
        skip = set()
        for b in blocks:
            if b in skip or b == head:
                continue
            if b in self.loops:
                inner = sorted(self.loops[b], key=lambda x: self.order[x])
                self.component(b, inner)
                skip |= self.loops[b]
            else:
                self.visit(b, self.in_edges(b))

    def in_edges(self, b):
        if b == 0:
            return [self.entry_state]
        return [self.out_edges[(p, b)] for p in self.preds.get(b, []) if (p, b) in self.out_edges]

    @staticmethod
    def sig(st):
        def hk(x):
            if isinstance(x, dict):
                return ckey(x)
            if isinstance(x, tuple):
                return tuple(hk(y) for y in x)
            return x
        return (tuple(sorted((l, hk(v)) for l, v in st.vals.items())), frozenset(st.facts))

    def component(self, h, blocks):
        lp = self.loops[h]
        for p in self.preds.get(h, []):
            if p in lp:
                self.out_edges.pop((p, h), None)
        key = (h, tuple((p, self.sig(self.out_edges[(p, h)])) for p in self.preds.get(h, []) if (p, h) in self.out_edges))
        memo = self.__dict__.setdefault('memo', {})
        if key in memo:
            ins, outs, verdicts = memo[key]
            self.memo_hits = getattr(self, 'memo_hits', 0) + 1
            for b_, st_ in ins.items():
                self.in_states[b_] = st_
            for e in [e for e in self.out_edges if e[0] in lp]:
                del self.out_edges[e]
            self.out_edges.update(outs)
            for k_, (ok_, goal_) in verdicts.items():
                self.sites[k_].ok, self.sites[k_].goal = ok_, goal_
            return
        self._component(h, blocks)
        memo[key] = ({b_: self.in_states[b_] for b_ in lp if b_ in self.in_states},
                     {e: st_ for e, st_ in self.out_edges.items() if e[0] in lp},
                     {k_: (s_.ok, s_.goal) for k_, s_ in self.sites.items() if s_.block in lp})

    def _component(self, h, blocks):
        lp = self.loops[h]
        self.visits[h] = 0
        for it in range(12):
            ins = self.in_edges(h)
            if not ins:
                return
            pids = [p for p in self.preds.get(h, []) if (p, h) in self.out_edges]
            st = self.join(h, ins, back=[p in lp for p in pids]) if len(ins) > 1 else ins[0].copy()
            old = self.in_states.get(h) if it > 0 else None
            if old is not None and old.same(st):
                if DEBUG:
                    import sys as _s
                    _s.stderr.write('   comp %d stable after %d\n' % (h, it))
                return
            if DEBUG and it >= 4 and old is not None:
                import sys as _s
                dv = [l for l in set(old.vals) | set(st.vals) if old.vals.get(l) != st.vals.get(l)]
                _s.stderr.write('   comp %d it %d: vals changed %s facts -%s +%s\n' % (h, it, dv[:6], [pshow(old.facts[k]) for k in set(old.facts) - set(st.facts)], [pshow(st.facts[k]) for k in set(st.facts) - set(old.facts)]))
            self.visits[h] = self.visits.get(h, 0) + 1
            self.transfer(h, st)
            self.region(blocks, h) if len(blocks) > 1 else None
        self.stable = False

    def visit(self, b, ins):
        if not ins:
            self.in_states.pop(b, None)
            for s in self.b.succ[b]:
                self.out_edges.pop((b, s), None)
            return
        self.visits[b] = 0
        st = self.join(b, ins) if len(ins) > 1 else ins[0].copy()
        self.transfer(b, st)

    def transfer(self, b, st):
        body = self.b
        self.block_visits += 1
        self.in_states[b] = st
        cur = st.copy()
        for stt in body.blocks[b]['stmts']:
            if stt['s'] == 'assign':
                self.assign(cur, stt['place'], stt['rv'], b)
        for s in body.succ[b]:
            self.out_edges.pop((b, s), None)
        for s, es in self.edge_states(cur, b):
            if s in self.order:
                self.out_edges[(b, s)] = es

    def rpo(self):
        body = self.b
        seen, post = set(), []
        stack = [(0, iter(body.succ[0]))]
        seen.add(0)
        while stack:
            b, it = stack[-1]
            adv = False
            for s in it:
                if s not in seen and not body.blocks[s]['cleanup']:
                    seen.add(s)
                    stack.append((s, iter(body.succ[s])))
                    adv = True
                    break
            if not adv:
                post.append(b)
                stack.pop()
        return post[::-1]

    # -- abduction of templates from open sites
    def abduce(self):
        """templates (over named-variable symbols) that would discharge the open sites, by cancelling one guarded atom"""
        out = []
        for s in self.sites.values():
            if s.ok or s.goal is None:
                continue
            st = self.in_states.get(s.block)
            if st is None:
                continue
            # replay the block to get the state at the terminator
            cur = st.copy()
            for stt in self.b.blocks[s.block]['stmts']:
                if stt['s'] == 'assign':
                    self.assign(cur, stt['place'], stt['rv'], s.block)
            back = {}
            for l, nm in self.named.items():
                v = cur.vals.get(l)
                if v is None:
                    continue
                p = v[1] if v[0] == 'i' else v[2] if v[0] == 'opt' else v[1] if v[0] in ('slice', 'vec') else None
                pre = 'v:' if v[0] == 'i' else 'vp:' if v[0] == 'opt' else 'vl:'
                if isinstance(p, dict) and len(p) == 1:
                    (m, c), = p.items()
                    if len(m) == 1 and c == 1:
                        back.setdefault(m[0], A(pre + nm))
            g = s.goal
            cands = [g]
            for f in cur.facts.values():
                for m, c in f.items():
                    if m == () or len(m) != 1 or m not in g:
                        continue
                    if c > 0 and g[m] > 0:
                        lam = g[m] / c
                        cands.append(padd(g, {mm: cc * lam for mm, cc in f.items()}, -1))
            for r in cands:
                ats = atoms_of(r)
                if all(a in back or a[0] in 'PLFG' for a in ats) and any(a in back for a in ats):
                    out.append(psubst(r, {a: back[a] for a in ats if a in back}))
        uniq = {}
        for t in out:
            uniq.setdefault(ckey(norm(t)), norm(t))
        return list(uniq.values())


def cmp_facts(op, a, c, truth):
    if not truth:
        op = {'Lt': 'Ge', 'Le': 'Gt', 'Gt': 'Le', 'Ge': 'Lt', 'Eq': 'Ne', 'Ne': 'Eq'}[op]
    if op == 'Le':
        return [padd(a, c, -1)]
    if op == 'Lt':
        return [padd(padd(a, c, -1), const(1))]
    if op == 'Ge':
        return [padd(c, a, -1)]
    if op == 'Gt':
        return [padd(padd(c, a, -1), const(1))]
    if op == 'Eq':
        return [padd(a, c, -1), padd(c, a, -1)]
    return []


def analyse(prog, body, entry=None, rounds=3, prover=None):
    """run the analysis, abduce templates from the open sites, re-run with them (a bounded number of rounds)"""
    prover = prover or Prover()
    templates = []
    an = None
    for r in range(rounds):
        an = Analysis(prog, body, prover, entry, templates).run()
        new = [t for t in an.abduce() if ckey(t) not in {ckey(x) for x in templates}]
        if not new or all(s.ok for s in an.sites.values()):
            break
        templates += new
        if len(templates) > 60:
            break
    return an


# ---- interprocedural driver: callers first, callee entry = join over all call sites ---------------------------------------------------
def entry_facts_from_callsites(prog, key, results):
    """facts over the callee's parameter atoms (P<i> value, L<i> slice length) entailed at every call site in the program;
    None when some caller has not been analysed (then nothing may be assumed)"""
    sites = []
    for c in prog.callers.get(key, []):
        ck = prog.key_of(c.body)
        if c.body.crate != 'rdp' and not ck.startswith(c.body.crate):
            ck = c.body.crate + '::' + ck
        an = results.get(ck)
        if an is None:
            if prog.absorbed(ck):
                continue        # a helper inlined into its callers: its call sites are analysed there
            return None
        if c.block not in an.call_states:
            continue            # unreachable call
        sites.append((an, c) + an.call_states[c.block])
    if not sites:
        return None
    subs = []
    for an, c, st, args in sites:
        sub = {}
        for i, v in enumerate(args):
            if v is None:
                continue
            if v[0] == 'i':
                sub['P%d' % (i + 1)] = v[1]
            elif v[0] in ('slice', 'vec'):
                sub['L%d' % (i + 1)] = v[1]
        subs.append(sub)
    common = set(subs[0])
    for s_ in subs[1:]:
        common &= set(s_)
    cands = {}
    for (an, c, st, args), sub in zip(sites, subs):
        sub = {k: v for k, v in sub.items() if k in common}
        inv = Analysis.inverse(sub)
        at = set()
        for p in sub.values():
            at |= atoms_of(p)
        pool = list(st.facts.values()) + an.range_facts(at)
        for f in pool:
            g = psubst(f, inv) if inv else f
            if atoms_of(g) <= common:
                cands.setdefault(ckey(norm(g)), norm(g))
        # direct bounds of each argument: P <= hi / lo <= P from the caller's ranges
        for k, p in sub.items():
            for bound in list(an.ranges.get(a) for a in atoms_of(p)):
                pass
    out = []
    for k, f in cands.items():
        ok = True
        for (an, c, st, args), sub in zip(sites, subs):
            g = psubst(f, {a: p for a, p in sub.items() if a in atoms_of(f)})
            if not an.prove(st, g):
                ok = False
                break
        if ok:
            out.append(f)
    # generic candidates: every argument against every constant bound that appears in some caller range
    bounds = sorted({r[1] for (an, c, st, args) in sites for r in an.ranges.values() if r[1] < LEN_MAX})[:8]
    for a in sorted(common):
        for hi in bounds:
            f = padd(A(a), const(hi), -1)
            if all(an.prove(st, psubst(f, {a: sub[a]})) for (an, c, st, args), sub in zip(sites, subs)):
                out.append(f)
                break
    # pairwise relations between arguments of degree <= 2:  L_i >= P_j * P_k  (buffer sized from the dimensions)
    ints = [a for a in sorted(common) if a[0] == 'P']
    lens = [a for a in sorted(common) if a[0] == 'L']
    for ln in lens:
        for i, u in enumerate(ints):
            for v in ints[i:]:
                found = False
                for kmul in (4, 2, 1):
                    for koff in (0, 1, 2, 3):
                        f = padd(padd({tuple(sorted((u, v))): Fraction(kmul)}, const(koff), -1), A(ln), -1)     # k*u*v - off <= L
                        if not found and all(an.prove(st, psubst(f, sub)) for (an, c, st, args), sub in zip(sites, subs)):
                            out.append(f)
                            found = True
    return out


def analyse_program(prog, order, rounds=3, assume=None):
    """order: body keys, callers before callees"""
    results = {}
    prover = Prover()
    for key in order:
        body = prog.bodies.get(key)
        if body is None:
            continue
        ef = entry_facts_from_callsites(prog, key, results)
        if assume and key in assume:
            ef = (ef or []) + list(assume[key])
        results[key] = analyse(prog, body, entry=(lambda an, ef=ef: ef or []), rounds=rounds, prover=prover)
        results[key].entry_facts = ef or []
    return results
