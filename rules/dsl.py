"""A5: shape model of the repository's message DSL, recovered from MIR (not from text).

`component![ "key" => value, ... ]` expands to IndexMap::insert(key.to_string(), Box::new(value) as Box<dyn Message>);
`trame![a, b]` to Vec::push(Box::new(a) as Box<dyn Message>).  For every function that builds a Component / Trame the
ordered field list is rebuilt per feasible path: key (string constant), static type of the boxed value (from the generic
argument of Box::new, i.e. from the type checker), the symbolic initialiser, and for DynOption fields the decoded closure
(MessageOption::Size(target, formula) / SkipField(target) / None per closure path)."""
from common import *

INSERT = 'indexmap::IndexMap::<K, V, S>::insert'
PUSH = 'std::vec::Vec::<T, A>::push'
BOXNEW = 'std::boxed::Box::<T>::new'
COMPONENT_TY = 'indexmap::IndexMap<std::string::String, std::boxed::Box<dyn model::data::Message>>'
SEQUENCE_TY = 'indexmap::IndexMap<std::string::String, std::boxed::Box<dyn nla::asn1::ASN1>>'
TRAME_TY = 'std::vec::Vec<std::boxed::Box<dyn model::data::Message>>'


class Field:
    def __init__(self, key, ty, expr, call, st):
        self.key = key          # str for component fields, int index for trame elements
        self.ty = ty            # static type of the boxed value
        self.expr = expr        # symbolic initialiser (resolved)
        self.call = call        # the insert/push Call
        self.kind, self.inner_ty = classify(ty)
        self.option = None      # for Dyn: list of closure outcomes
        self.closure = None
        self.endian = None

    def __repr__(self):
        return 'Field(%r:%s)' % (self.key, self.kind)


def classify(ty):
    """kind of a Message type: U8 U16 U32 Bytes Check Dyn Opt Array Comp Trame Other; plus inner type"""
    if ty == 'u8':
        return 'U8', None
    if ty == 'model::data::Value<u16>':
        return 'U16', None
    if ty == 'model::data::Value<u32>':
        return 'U32', None
    if ty == 'std::vec::Vec<u8>':
        return 'Bytes', None
    m = re.match(r'^model::data::Check<(.*)>$', ty)
    if m:
        return 'Check', m.group(1)
    m = re.match(r'^model::data::DynOption<(.*)>$', ty)
    if m:
        return 'Dyn', m.group(1)
    m = re.match(r'^std::option::Option<(.*)>$', ty)
    if m:
        return 'Opt', m.group(1)
    m = re.match(r'^model::data::Array<(.*)>$', ty)
    if m:
        return 'Array', m.group(1)
    if ty == COMPONENT_TY:
        return 'Comp', None
    if ty == TRAME_TY:
        return 'Trame', None
    return 'Other', None


def base_kind(ty):
    """kind after peeling Check/Dyn (which delegate read/write/length/visit to the inner value)"""
    k, inner = classify(ty)
    while k in ('Check', 'Dyn') and inner:
        k, inner2 = classify(inner)
        if k in ('Check', 'Dyn'):
            inner = inner2
        else:
            return k
    return k


def fixed_size(ty):
    """encoded size in bytes if statically fixed by the type alone, else None"""
    k, inner = classify(ty)
    if k == 'U8':
        return 1
    if k == 'U16':
        return 2
    if k == 'U32':
        return 4
    if k in ('Check', 'Dyn'):
        return fixed_size(inner)
    return None


class Shape:
    """one feasible construction path of a constructor function"""

    def __init__(self, body, path, st):
        self.body = body
        self.path = path
        self.st = st
        self.fields = []        # component fields in insertion order
        self.elements = []      # trame elements (pushes) in order, grouped by vector local
        self.tag = None

    def keys(self):
        return [f.key for f in self.fields]

    def get(self, key):
        for f in self.fields:
            if f.key == key:
                return f
        return None


def decode_closure(P, closure_path):
    """outcomes of a DynOption filter closure: list of dicts {kind: Size|SkipField|None, target, size(expr), cond(list)}"""
    body = P.bodies.get(closure_path)
    if body is None:
        return None
    outs = []
    for path, st in feasible_paths(body, P, limit=20000):
        v = strip(st.env.get(0))
        if v[0] == 'unknown':
            continue
        v = resolve(st, v)
        # a path on which `cast!(..).unwrap()` unwraps the Err built by the cast macro panics: not an outcome
        panics = any(n[0] == 'via' and n[1].endswith('::unwrap') and unwrap_cast(n[2])[0] == 'agg' and unwrap_cast(n[2])[2] in ('Err', 'None')
                     for n in walk(v))
        if panics:
            outs.append({'kind': 'panic', 'target': None, 'size': None, 'conds': [], 'expr': v})
            continue
        if v[0] != 'agg' or not v[1].endswith('MessageOption'):
            outs.append({'kind': '?', 'expr': v})
            continue
        o = {'kind': v[2], 'target': None, 'size': None, 'conds': []}
        if v[2] in ('Size', 'SkipField'):
            t = v[3][0]
            ss = [c[2] for c in consts_in(t) if isinstance(c[2], str)]
            for s_ in ss:
                m = re.match(r'^(?:const )?"(.*)"$', s_)
                if m:
                    o['target'] = m.group(1)
        if v[2] == 'Size':
            o['size'] = v[3][1]
        for ev in path_branches(st):
            o['conds'].append((resolve(st, ev[2]), branch_truth(ev)))
        outs.append(o)
    # `if v < K { 0 } else { v - K }` is `v.saturating_sub(K)` written out: the two outcomes are merged into the one the rules know
    if len(outs) == 2 and all(o.get('kind') == 'Size' for o in outs) and outs[0]['target'] == outs[1]['target']:
        zero = [o for o in outs if fold(o['size'])[0] == 'const' and fold(o['size'])[1] == 0]
        diff = [o for o in outs if o not in zero]
        if len(zero) == 1 and len(diff) == 1:
            d_ = unwrap_cast(fold(diff[0]['size']))
            if d_[0] == 'bin' and d_[1].replace('WithOverflow', '') == 'Sub' and fold(d_[3])[0] == 'const':
                K = fold(d_[3])[1]
                guard = [c for c, truth in zero[0]['conds'] if strip(c)[0] == 'bin' and strip(c)[1] == 'Lt' and fold(strip(c)[3])[0] == 'const'
                         and fold(strip(c)[3])[1] == K and truth and same_value(strip(c)[2], d_[2])]
                if guard:
                    outs = [{'kind': 'Size', 'target': outs[0]['target'], 'conds': [],
                             'size': ('call', 'core::num::<impl usize>::saturating_sub', 0, (d_[2], ('const', K, str(K))))}]
    return outs


def decode_fn_option(P, fn_path):
    """a DynOption filter given as a named function `fn f(v: &T) -> MessageOption`: decoded like a closure, its value parameter renumbered to the
    closure convention (parameter 2)"""
    outs = decode_closure(P, fn_path)
    if outs is None:
        return None

    def ren(e):
        if e == ('param', 1):
            return ('param', 2)
        if isinstance(e, tuple):
            return tuple(ren(x) if isinstance(x, tuple) else x for x in e)
        return e
    for o in outs:
        for k in ('size', 'expr'):
            if o.get(k) is not None:
                o[k] = ren(o[k])
        o['conds'] = [(ren(c), t) for c, t in o.get('conds', [])]
    return outs


def size_formula(e):
    """normalise a Size expression of a closure to (source, K) meaning `inner(source) - K` (K may be 0), with
    source in {'self' (the field's own value), ('field', name) (a sub-field read with cast!)} ; (None, None) if other"""
    e = fold(e)
    e = unwrap_cast(e)
    K = 0
    mul = 1
    if e[0] == 'call' and e[1].endswith('saturating_sub') and len(e[3]) == 2:
        k = fold(e[3][1])
        if k[0] == 'const':
            K = k[1]
            e = unwrap_cast(e[3][0])
    elif e[0] == 'bin' and e[1] in ('Sub',):
        k = fold(e[3])
        if k[0] == 'const':
            K = k[1]
            e = unwrap_cast(e[2])
    elif e[0] == 'bin' and e[1] == 'Add':
        k = fold(e[3])
        if k[0] == 'const':
            K = -k[1]
            e = unwrap_cast(e[2])
    if e[0] == 'bin' and e[1] == 'Mul':
        k = fold(e[3])
        if k[0] == 'const':
            mul = k[1]
            e = unwrap_cast(e[2])
    if e == ('param', 2) or (e[0] == 'deref' and e[1] == ('param', 2)):
        return 'self', K, mul
    # cast!(DataType::U16, header["key"]).unwrap()
    strs = [c[2] for c in consts_in(e) if isinstance(c[2], str)]
    keys = [m.group(1) for m in (re.match(r'^(?:const )?"(.*)"$', s_) for s_ in strs) if m]
    if keys and ('param', 2) in list(walk(e)):
        return ('field', keys[0]), K, mul
    return None, None, None


_CACHE = {}


def shapes_of(P, fn_path, limit=20000):
    """list of Shape (one per feasible path) of a constructor function"""
    key = (id(P), fn_path)
    if key in _CACHE:
        return _CACHE[key]
    body = P.bodies.get(fn_path)
    out = []
    if body is None:
        _CACHE[key] = out
        return out
    for path, st in feasible_paths(body, P, limit=limit):
        v = strip(st.env.get(0))
        if v[0] == 'unknown':
            continue
        sh = Shape(body, path, st)
        for ev in st.events:
            if ev[0] != 'call':
                continue
            c = ev[1]
            r0 = root_of(ev[2][0]) if ev[2] else None
            if c.callee == INSERT and r0 is not None and body.local_ty(r0) == COMPONENT_TY:
                kexpr = ev[3][1]
                ks = [m.group(1) for m in (re.match(r'^(?:const )?"(.*)"$', c_[2]) for c_ in consts_in(kexpr) if isinstance(c_[2], str)) if m]
                val = ev[3][2]
                ty, inner = boxed_type(val, st)
                f = Field(ks[0] if ks else None, ty, inner, c, st)
                f.map_local = root_of(ev[2][0])
                fill_details(P, f, st)
                sh.fields.append(f)
            elif c.callee == PUSH and r0 is not None and body.local_ty(r0) == TRAME_TY:
                val = ev[3][1]
                ty, inner = boxed_type(val, st)
                f = Field(len([e for e in sh.elements if e.map_local == root_of(ev[2][0])]), ty, inner, c, st)
                f.map_local = root_of(ev[2][0])
                fill_details(P, f, st)
                sh.elements.append(f)
        # tag stored beside the component (PDU { pdu_type, message } and friends)
        rv = resolve(st, v)
        if rv[0] == 'agg' and rv[1].startswith('core::') and len(rv) > 4:
            for fname, fe in zip(rv[4], rv[3]):
                fe = unwrap_cast(fe)
                if fe[0] == 'agg' and not fe[3] and fname != 'message':
                    sh.tag = (fname, fe[2])
        # which map is returned (a function may build nested components: keep fields of the returned map first)
        sh.ret_local = returned_map(st, v)
        out.append(sh)
    _CACHE[key] = out
    return out


def root_of(e):
    for _ in range(20):
        if e[0] == 'refl':
            return e[1]
        if e[0] in ('cast', 'ref', 'refm', 'deref'):
            e = e[1]
        elif e[0] == 'via':
            e = e[2]
        else:
            return None
    return None


def returned_map(st, v):
    return None


def boxed_type(val, st):
    """(static type T, inner expression) of `Box::new(inner) as Box<dyn Message>`"""
    e = val
    while e[0] == 'cast':
        e = e[1]
    if e[0] == 'via' and e[1] == BOXNEW:
        inner = e[2]
        # type from the type checker: generic argument of Box::<T>::new at that call
        for ev in st.events:
            if ev[0] == 'call' and ev[1].callee == BOXNEW and ev[2] and ev[2][0] is inner:
                return (ev[1].generic_args[0] if ev[1].generic_args else '?'), resolve(st, inner)
        for ev in st.events:
            if ev[0] == 'call' and ev[1].callee == BOXNEW and ev[2] and ev[2][0] == inner:
                return (ev[1].generic_args[0] if ev[1].generic_args else '?'), resolve(st, inner)
    return '?', resolve(st, val)


def fill_details(P, f, st):
    e = unwrap_cast(f.expr)
    # endianness of integer fields
    for n in walk(e):
        if n[0] == 'agg' and n[1] == 'model::data::Value' and n[2] in ('LE', 'BE'):
            f.endian = n[2]
            break
    if f.kind == 'Dyn':
        for n in walk(e):
            if n[0] == 'call' and n[1] == 'model::data::DynOption::<T>::new':
                cl = n[3][1]
                if cl[0] == 'closure':
                    f.closure = cl[1]
                    f.option = decode_closure(P, cl[1])
                elif cl[0] == 'fnconst' and (cl[1] in P.bodies):
                    f.closure = cl[1]
                    f.option = decode_fn_option(P, cl[1])
                f.inner_expr = n[3][0]
    if f.kind == 'Array':
        for n in walk(e):
            if n[0] == 'call' and n[1] == 'model::data::Array::<T>::new':
                cl = n[3][0]
                if cl[0] == 'closure':
                    f.closure = cl[1]
            if n[0] == 'call' and n[1] == 'model::data::Array::<T>::from_trame':
                f.from_trame = True


def constructors(P):
    """all functions (and closures) that insert into a Component"""
    out = []
    for k, b in P.bodies.items():
        if any(l['ty'] == COMPONENT_TY for l in b.locals) and \
                (any(c.callee == INSERT for c in b.calls) or any(c.callee.startswith('indexmap::IndexMap::<K, V>::new') for c in b.calls)):
            out.append(k)
    return sorted(out)


def returned_components(P, fn_path):
    """for a constructor: the Shape list restricted to the component that is returned / embedded in the returned value.
    Functions in this code base build exactly one top-level component per path (nested ones come from calls), except for
    inline nested `component![]` literals, which are kept as separate map locals."""
    res = []
    for sh in shapes_of(P, fn_path):
        maps = []
        for f in sh.fields:
            if f.map_local not in maps:
                maps.append(f.map_local)
        if not maps:
            res.append((sh, []))
            continue
        # the returned map: the one whose local flows into _0
        v = strip(sh.st.env.get(0))
        chosen = None
        for m in maps:
            mv = sh.st.env.get(m)
            if mv is not None and (mv == v or any(n == mv for n in walk(resolve(sh.st, v)))):
                chosen = m
        if chosen is None:
            chosen = maps[0]
        res.append((sh, [f for f in sh.fields if f.map_local == chosen]))
    return res
