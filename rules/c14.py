"""C14 - outbound frames are exact and completely delivered, or refused (DESIGN.md 4/C14)."""
from common import *

META = {
    'level': 'other',
    'explanation': 'Static analysis of the outbound transport chain on the MIR of the current tree: (R14.1) every '
                   'count-returning write on the stream is either std write_all or has its count consumed, and the chain '
                   'Link::write -> Stream::write_all -> io::Write::write_all hands over the whole serialised buffer once; '
                   '(R14.2) every Result produced inside the write chain reaches ?/return/match (none dropped or discarded); '
                   '(R14.3) tpkt::Client::write emits exactly one Link::write of trame![tpkt_header(len(message)), message] '
                   'with header length and payload taken from the same message; (R14.4) the 16-bit narrowing and the +K in '
                   'tpkt_header are dominated by a refusal guard whose constant C satisfies C + K <= 0xFFFF.',
    'assumptions': ['std::io::Write::write_all writes every byte or returns Err (std contract)',
                    'Message::length(&m) is pure (same value on an unmodified message)'],
    'trusted_base': ['rustc nightly MIR construction', 'mirfacts exporter', 'rules/c14.py, sym.py, facts.py'],
}
META['explanation'] += ' The delivery of Link::write is not inside a loop (no whole-buffer retry after a partial write).'

STREAM_WRITE = 'model::link::Stream::<S>::write'
STREAM_WRITE_ALL = 'model::link::Stream::<S>::write_all'
LINK_WRITE = 'model::link::Link::<S>::write'
TPKT_WRITE = 'core::tpkt::Client::<S>::write'
X224_WRITE = 'core::x224::Client::<S>::write'
MCS_WRITE = 'core::mcs::Client::<S>::write'

# the write chain (DESIGN.md R11.1): functions through which every outbound message travels
CHAIN = [STREAM_WRITE_ALL, LINK_WRITE, TPKT_WRITE, X224_WRITE, MCS_WRITE,
         'core::global::Client::write_pdu', 'core::global::Client::write_data_pdu',
         'core::global::Client::write_input_event', 'core::global::Client::write_confirm_active_pdu',
         'core::global::Client::write_client_finalize', 'core::client::RdpClient::<S>::write',
         'core::x224::Client::<S>::write_connection_request', 'core::mcs::Client::<S>::write_connect_initial',
         'core::mcs::Client::<S>::shutdown', 'core::sec::connect']

DISCARDERS = re.compile(r'^std::result::Result::<T, E>::(ok|is_ok|is_err|unwrap_or|unwrap_or_default|unwrap_or_else|err|iter|map_or|map_or_else)$')


def result_consumed(body, call):
    """how the Result produced by `call` is consumed: list of sink kinds ('try','return','match','call:<f>',...)"""
    d = call.dest
    if d['p']:
        return ['store']
    if d['l'] == 0:
        return ['return']
    sinks = forward_uses(body, d['l'], through_transparent=False)
    kinds = []
    for s in sinks:
        if s['sink'] == 'call':
            c = s['call']
            if c.callee.endswith('as std::ops::Try>::branch'):
                kinds.append('try')
            elif DISCARDERS.match(c.callee):
                kinds.append('discard:' + c.callee.rsplit('::', 1)[-1])
            else:
                kinds.append('call:' + c.callee)
        elif s['sink'] == 'discr':
            kinds.append('match')
        elif s['sink'] == 'store' or s['sink'] == 'agg':
            kinds.append('store')
        else:
            kinds.append(s['sink'])
    # moved into the return place?
    for dd in body.defs.get(0, []):
        if dd[0] == 'stmt':
            o = dd[3]['rv'].get('op')
            if o and op_local(o) == d['l']:
                kinds.append('return')
    return kinds


def run(ctx):
    P = ctx.prog

    # ---- R14.1a: Stream::write_all -> io::Write::write_all on the caller's buffer ----------
    swa = P.bodies.get(STREAM_WRITE_ALL)
    n_ok = 0
    if swa is None:
        ctx.note('Stream::write_all does not exist in this tree; complete delivery must then be established in Link::write (R14.1b/c)')
    for path in (enum_paths(swa) if swa is not None else []):
        st = run_path(swa, path, P)
        if not st.feasible:
            continue
        if ret_kind(st.env.get(0)) != 'ok':
            continue
        n_ok += 1
        wa = path_calls(st, 'std::io::Write::write_all')
        w = path_calls(st, ['std::io::Write::write', STREAM_WRITE])
        buf_ok = any(unwrap_cast(ev[3][1]) == ('param', 2) for ev in wa)
        ctx.check(len(wa) == 1 and not w and buf_ok, 'R14.1', 'stream_write_all:bb%d' % (path[1] if len(path) > 1 else 0),
                  'Stream::write_all Ok path hands the whole caller buffer to std Write::write_all exactly once',
                  swa.where(),
                  'Stream::write_all has an Ok path that is not exactly one std Write::write_all of the caller\'s buffer '
                  '(accepted idiom for complete delivery; a partial write would be reported as success)')
    if swa is not None:
        ctx.floor('R14.1', 'Ok paths of Stream::write_all (one per stream variant)', n_ok, 2)

    # ---- R14.1b: Link::write serialises then delivers the whole buffer once ------------------
    lw = ctx.body(LINK_WRITE)
    n_ok = 0
    for path in enum_paths(lw):
        st = run_path(lw, path, P)
        if not st.feasible:
            continue
        if ret_kind(st.env.get(0)) not in ('ok', 'call:' + STREAM_WRITE_ALL):
            # (the result of the delivery returned as is counts as a success path: it is Ok exactly when everything was delivered)
            continue
        n_ok += 1
        ser = path_calls(st, 'model::data::Message::write')
        dl = path_calls(st, STREAM_WRITE_ALL)
        partial = path_calls(st, STREAM_WRITE)
        good = len(ser) == 1 and len(dl) == 1 and not partial
        if good:
            # serialisation target is a local Cursor, and the delivered slice is that cursor's buffer
            tgt = object_value(st, ser[0][2][1])
            src = object_value(st, dl[0][2][1])
            good = tgt[0] == 'mutated' and tgt[1] == 'model::data::Message::write' and tgt == src \
                and unwrap_cast(ser[0][3][0]) == ('param', 2)
        ctx.check(good, 'R14.1', 'link_write', 'Link::write: message serialised into a local buffer which is then delivered '
                  'whole with one Stream::write_all', lw.where(),
                  'Link::write does not deliver the serialised message with exactly one complete (write_all) write')
    ctx.floor('R14.1', 'Ok paths of Link::write', n_ok, 1)
    # ... and never delivers it twice: the delivery is not inside a loop (write_all may have handed part of the buffer to the stream before it
    # failed; retrying the whole buffer puts those bytes on the wire again, in the middle of a frame)
    dls = [c for c in lw.calls if c.callee == STREAM_WRITE_ALL]
    ctx.check(bool(dls) and not any(lw.in_cycle(c.block) for c in dls), 'R14.1', 'link_write:no_retry', 'the delivery of Link::write is not repeated', lw.where(),
              'Link::write calls Stream::write_all inside a loop: after a partial write the whole buffer is sent again (bytes duplicated inside a frame), '
              'or the frame is reported delivered after a failed attempt')

    # ---- R14.1c: census of count-returning writes in the whole program ----------------------
    n_cnt = 0
    for body in P.bodies.values():
        for c in body.calls:
            if c.orig == 'std::io::Write::write' or c.callee == STREAM_WRITE:
                n_cnt += 1
                kinds = result_consumed(body, c)
                # the count (Ok payload) must reach something other than being dropped
                used = [k for k in kinds if k in ('return', 'store', 'bin', 'switch', 'match') or k.startswith('call:')]
                tried = 'try' in kinds
                payload_used = False
                if tried:
                    payload_used = try_payload_used(body, c)
                ctx.check(bool(used) or payload_used, 'R14.1', 'count:%s' % body.path,
                          '%s: byte count returned by %s is consumed (%s)' % (body.path, c.callee.rsplit('::', 1)[-1], ','.join(sorted(set(kinds)))),
                          c.where(),
                          '%s drops the byte count returned by %s: a short write silently truncates the data'
                          % (body.path, c.callee))
    ctx.floor('R14.1', 'count-returning write call sites (Stream::write wrapper arms)', n_cnt, 1)

    # ---- R14.2: no Result dropped in the write chain --------------------------------------
    n_res = 0
    n_chain = 0
    for name in CHAIN:
        body = P.bodies.get(name)
        if body is None:
            continue
        n_chain += 1
        for c in body.calls:
            ty = body.local_ty(c.dest['l']) if not c.dest['p'] else ''
            if not ty.startswith('std::result::Result<'):
                continue
            if c.callee.endswith('as std::ops::Try>::branch') or c.callee.endswith('from_residual'):
                continue
            n_res += 1
            kinds = result_consumed(body, c)
            bad = [k for k in kinds if k.startswith('discard:')]
            good = [k for k in kinds if k in ('try', 'return', 'match') or k.startswith('call:')]
            ctx.check(bool(good) and not bad, 'R14.2', '%s:%s' % (name, c.callee),
                      '%s: Result of %s is propagated (%s)' % (name.rsplit('::', 1)[-1], c.callee.rsplit('::', 1)[-1], ','.join(sorted(set(kinds)))),
                      c.where(),
                      '%s: the Result of %s is dropped or discarded (%s): a transport error would be swallowed'
                      % (name, c.callee, ','.join(kinds) or 'never read'))
    ctx.floor('R14.2', 'functions of the write chain found', n_chain, 13)
    ctx.floor('R14.2', 'Result-returning calls inside the write chain', n_res, 20)

    # ---- R14.3 / R14.4: tpkt::Client::write ------------------------------------------------
    tw = ctx.body(TPKT_WRITE)
    hdr = ctx.body('core::tpkt::tpkt_header')
    # K = constant added to the size inside tpkt_header
    K = None
    for b in range(hdr.n):
        for stt in hdr.blocks[b]['stmts']:
            if stt['s'] == 'assign' and stt['rv']['rv'] == 'bin' and stt['rv']['op'].startswith('Add'):
                l, r = stt['rv']['l'], stt['rv']['r']
                if op_const(r) is not None and any(o.kind == 'param' and o.param == 1 for o in origins(hdr, l)):
                    K = op_const(r)
    ctx.check(K == 4, 'R14.3', 'tpkt_header:K', 'tpkt_header stores size + 4 (the 4 header bytes action, flag, size)', hdr.where(),
              'tpkt_header does not add the 4 header bytes to the payload size (found %s)' % K)
    callers = sorted(P.caller_fns('core::tpkt::tpkt_header'))
    ctx.check(callers == [TPKT_WRITE], 'R14.4', 'tpkt_header:callers',
              'tpkt_header is called only from tpkt::Client::write (so its size argument is bounded by that guard)', hdr.where(),
              'tpkt_header has callers other than tpkt::Client::write: %s' % callers)
    n_ok = 0
    for path in enum_paths(tw):
        st = run_path(tw, path, P)
        if not st.feasible:
            continue
        rk = ret_kind(st.env.get(0))
        lws = path_calls(st, LINK_WRITE)
        if rk == 'err':
            ctx.check(not lws, 'R14.4', 'tpkt_write:refusal', 'refusal path writes nothing', tw.where(),
                      'tpkt::Client::write writes to the link on the path that refuses the message')
            continue
        if not lws:
            ctx.fail('R14.3', 'tpkt_write:nowrite', 'tpkt::Client::write has a non-error path without Link::write', tw.where())
            continue
        n_ok += 1
        pushes = path_calls(st, 'std::vec::Vec::<T, A>::push')
        good = len(lws) == 1 and len(pushes) == 2
        hl = None
        if good:
            first = unwrap_cast(pushes[0][3][1])
            second = unwrap_cast(pushes[1][3][1])
            # first = tpkt_header(length(message) as u16), second = message
            if first[0] == 'call' and first[1] == 'core::tpkt::tpkt_header':
                hl = unwrap_cast(first[3][0])
            good = hl is not None and hl[0] == 'call' and hl[1] == 'model::data::Message::length' \
                and root_local(hl[3][0]) == 2 and second == ('param', 2)
            # the delivered trame is the vector that received the two pushes
            good = good and root_local(pushes[0][2][0]) == root_local(pushes[1][2][0]) \
                and object_value(st, lws[0][2][1]) == object_value(st, pushes[0][2][0]) \
                and object_value(st, lws[0][2][1])[0] == 'mutated'
        ctx.check(good, 'R14.3', 'tpkt_write:frame',
                  'tpkt::Client::write: one Link::write of [tpkt_header(message.length() as u16), message], both from the same message',
                  where(tw, lws[0][1].block),
                  'tpkt::Client::write does not emit exactly one frame whose header length is computed from the message it carries')
        # R14.4 guard: a comparison that is affine in length(message) and whose surviving edge implies length <= C, with C + K <= 0xffff
        import poly as _poly
        import math as _math
        C = None
        hl_atom = None
        if hl is not None:
            ph = _poly.poly(hl)
            if len(ph) == 1 and list(ph.values())[0] == 1 and len(list(ph)[0]) == 1:
                hl_atom = list(ph)[0]
        for br in path_branches(st):
            e = fold(br[2])
            if e[0] == 'bin' and e[1] in ('Gt', 'Ge', 'Lt', 'Le') and hl_atom is not None:
                d = _poly.padd(_poly.poly(e[2]), _poly.poly(e[3]), -1)          # lhs - rhs
                if set(d) - {hl_atom, ()}:
                    continue
                c1, c0 = d.get(hl_atom, 0), d.get((), 0)
                if c1 == 0:
                    continue
                op = e[1] if branch_truth(br) else {'Gt': 'Le', 'Ge': 'Lt', 'Lt': 'Ge', 'Le': 'Gt'}[e[1]]
                # c1*L + c0 op 0 holds on this path
                if c1 < 0:
                    c1, c0 = -c1, -c0
                    op = {'Gt': 'Lt', 'Ge': 'Le', 'Lt': 'Gt', 'Le': 'Ge'}[op]
                if op == 'Le':
                    bound = _math.floor(-c0 / c1)
                elif op == 'Lt':
                    bound = _math.ceil(-c0 / c1) - 1
                else:
                    continue
                C = bound if C is None else min(C, bound)
        ctx.check(C is not None and K is not None and C + K <= 0xFFFF, 'R14.4', 'tpkt_write:guard',
                  'the narrowing `length as u16` and tpkt_header\'s +%s are dominated by the refusal of length > %s (%s + %s <= 65535)'
                  % (K, C, C, K), where(tw, lws[0][1].block),
                  'tpkt::Client::write: no guard on the path bounds message.length() so that length + %s fits 16 bits '
                  '(bound found: %s): an oversized message is sent under a wrong header' % (K, C))
    ctx.floor('R14.3', 'writing paths of tpkt::Client::write', n_ok, 1)

    # ---- R14.3b: x224::Client::write wraps the message once ---------------------------------
    xw = ctx.body(X224_WRITE)
    n = 0
    for path in enum_paths(xw):
        st = run_path(xw, path, P)
        if not st.feasible:
            continue
        tws = path_calls(st, TPKT_WRITE)
        if not tws:
            continue
        n += 1
        pushes = path_calls(st, 'std::vec::Vec::<T, A>::push')
        good = len(tws) == 1 and len(pushes) == 2 and unwrap_cast(pushes[1][3][1]) == ('param', 2) \
            and unwrap_cast(pushes[0][3][1])[0] == 'call' and unwrap_cast(pushes[0][3][1])[1] == 'core::x224::x224_header'
        ctx.check(good, 'R14.3', 'x224_write:frame', 'x224::Client::write: one tpkt write of [x224_header(), message]', xw.where(),
                  'x224::Client::write does not wrap the message in exactly one [x224_header, message] frame')
    ctx.floor('R14.3', 'writing paths of x224::Client::write', n, 1)


    # ---- R14.5 the length the frame header announces is the number of bytes write() emits: Message::length / write agreement of the containers
    #      (rule R18.1 of C18, same facts) --------------------------------------------------------------------------------------------------------
    import c18
    ctx.include(c18.run, ('R18.1',), 'R14.5')

def root_local(e, through_calls=False, st=None):
    """the local variable an address expression ultimately refers to (refl chain), else None"""
    seen = 0
    while seen < 30:
        seen += 1
        if e[0] == 'cast':
            e = e[1]
        elif e[0] == 'refl':
            if through_calls and st is not None:
                v = st.env.get(e[1])
                # local holding the result of a transparent call / move of another local's value
                if v is not None and v[0] in ('via',):
                    e = v[2]
                    continue
                if v is not None and v[0] == 'refl':
                    e = v
                    continue
            return e[1]
        elif e[0] in ('via',):
            e = e[2]
        elif e[0] in ('ref', 'deref', 'refm'):
            e = e[1]
        elif e[0] == 'mutated' and through_calls:
            return None
        else:
            return None
    return None


def object_value(st, e):
    """the value (as of the end of the path) of the object an address/handle expression denotes"""
    for _ in range(30):
        if e is None:
            return ('unknown', 'unset')
        if e[0] in ('cast',):
            e = e[1]
        elif e[0] == 'refl':
            e = st.env.get(e[1])
        elif e[0] == 'via':
            e = e[2]
        elif e[0] in ('ref', 'deref', 'refm'):
            e = e[1]
        elif e[0] == 'call' and re.search(r'ops::Index(Mut)?<I>>::index(_mut)?$', e[1]) and len(e[3]) == 2 \
                and strip(e[3][1])[0] == 'agg' and strip(e[3][1])[1] == 'std::ops::RangeFull':
            e = e[3][0]             # `&v[..]` is the whole of v
        else:
            p = peel_payload(e)     # `helper(..)?` of an inlined helper: the payload of the Ok(..) it built on this path
            if p is e:
                return e
            e = p
    return e


def try_payload_used(body, call):
    """the Ok payload of `call` (unwrapped by ?) is read by something"""
    d = call.dest['l']
    for u in local_uses(body, d):
        if u['kind'] == 'callarg' and u['call'].callee.endswith('as std::ops::Try>::branch'):
            br = u['call'].dest['l']
            # payload: (br as Continue).0 assigned to some local; is that local used?
            for b in range(body.n):
                for st in body.blocks[b]['stmts']:
                    if st['s'] == 'assign' and st['rv']['rv'] == 'use' and is_place_op(st['rv']['op']):
                        pl = st['rv']['op']['place']
                        if pl['l'] == br and any(p['k'] == 'downcast' and p['variant'] == 'Continue' for p in pl['p']):
                            tgt = st['place']
                            if tgt['p']:
                                return True
                            sinks = [s for s in forward_uses(body, tgt['l']) if s['sink'] != 'discr']
                            if sinks:
                                return True
                            # moved into return place
                            for dd in body.defs.get(0, []):
                                if dd[0] == 'stmt' and 'ops' in dd[3]['rv']:
                                    for o in dd[3]['rv']['ops']:
                                        if op_local(o) == tgt['l']:
                                            return True
    return False
