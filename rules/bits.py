"""Bit-provenance abstract domain over symbolic expressions (a static known-bits / bit-dependency analysis).

The abstract value of an integer expression of width w is a list of w entries, least significant first; each entry is
  0 / 1                constant bit
  (leaf_id, k)         copy of bit k of input leaf `leaf_id`
  None                 unknown (depends on several inputs / arithmetic carry)
Transfer functions are exact for constants, casts, masks, shifts by constants, Not, and Or/And/Xor of bit vectors whose
entries are decidable; Add is exact when the operands have no overlapping possibly-one bits (then it is an Or).
Leaves are maximal sub-expressions that are not built from these operators (e.g. a byte read from the stream)."""
from common import fold, strip, unwrap_cast


def width_of(ty):
    import re
    m = re.match(r'^[ui](8|16|32|64|128|size)$', ty or '')
    if not m:
        return None
    return 64 if m.group(1) == 'size' else int(m.group(1))


class Bits:
    def __init__(self, leaf_width=8):
        self.leaves = []        # leaf expressions, index = leaf id
        self.leaf_width = leaf_width

    def leaf(self, e, w):
        for i, x in enumerate(self.leaves):
            if x == e:
                return [(i, k) for k in range(w)]
        self.leaves.append(e)
        i = len(self.leaves) - 1
        return [(i, k) for k in range(w)]

    def eval(self, e, w, leaf_w=None):
        """abstract bits of expression e viewed at width w; leaf_w: width assumed for leaves when no cast tells it"""
        e = strip(e)
        f = fold(e)
        if f[0] == 'const' and f[1] is not None:
            v = f[1] & ((1 << w) - 1)
            return [(v >> k) & 1 for k in range(w)]
        if e[0] == 'cast':
            tw = width_of(e[2])
            if tw is None:
                return self.leaf(e, w)
            inner = strip(e[1])
            # source width: from an inner cast, else the declared leaf width
            sw = self.src_width(inner, leaf_w)
            b = self.eval(inner, sw, leaf_w)
            b = b[:tw] + [0] * max(0, tw - len(b))       # unsigned sources only (zero-extension)
            return (b + [0] * w)[:w]
        if e[0] == 'un' and e[1] == 'Not':
            b = self.eval(e[2], w, leaf_w)
            return [(1 - x) if x in (0, 1) else None for x in b]
        if e[0] == 'bin':
            op = e[1].replace('WithOverflow', '').replace('Unchecked', '')
            if op in ('BitAnd', 'BitOr', 'BitXor', 'Add'):
                a = self.eval(e[2], w, leaf_w)
                b = self.eval(e[3], w, leaf_w)
                out = []
                if op == 'Add':
                    # exact iff no position can be 1 in both operands
                    if all(x == 0 or y == 0 for x, y in zip(a, b)):
                        op = 'BitOr'
                    else:
                        return [None] * w
                for x, y in zip(a, b):
                    if op == 'BitAnd':
                        out.append(0 if (x == 0 or y == 0) else (y if x == 1 else (x if y == 1 else (x if x == y else None))))
                    elif op == 'BitOr':
                        out.append(1 if (x == 1 or y == 1) else (y if x == 0 else (x if y == 0 else (x if x == y else None))))
                    else:
                        out.append((x ^ y) if (x in (0, 1) and y in (0, 1)) else (y if x == 0 else (x if y == 0 else None)))
                return out
            if op in ('Shl', 'Shr'):
                k = fold(e[3])
                if k[0] == 'const' and k[1] is not None and 0 <= k[1] < 128:
                    a = self.eval(e[2], w, leaf_w)
                    n = k[1]
                    if op == 'Shl':
                        return ([0] * n + a)[:w]
                    return (a[n:] + [0] * n)[:w]
                return [None] * w
            if op in ('Sub', 'Mul', 'Div', 'Rem'):
                return [None] * w
        return self.leaf(e, min(w, leaf_w or w)) + [0] * max(0, w - (leaf_w or w))

    def src_width(self, inner, leaf_w):
        inner = strip(inner)
        if inner[0] == 'cast':
            return width_of(inner[2]) or (leaf_w or 64)
        if inner[0] == 'bin':
            return max(self.src_width(inner[2], leaf_w), self.src_width(inner[3], leaf_w)) if inner[1] not in ('Shl', 'Shr') else self.src_width(inner[2], leaf_w)
        if inner[0] == 'un':
            return self.src_width(inner[2], leaf_w)
        return leaf_w or 64


def describe(bits, leaves_names=None):
    out = []
    for k, b in enumerate(bits):
        if b in (0, 1):
            out.append(str(b))
        elif b is None:
            out.append('?')
        else:
            out.append('%s[%d]' % ((leaves_names or {}).get(b[0], 'in%d' % b[0]), b[1]))
    return ' '.join(reversed(out))
