"""C05 - hostile server bytes during connection setup never crash the client (DESIGN.md 3, 4/C05)."""
from hpa_prop import run_hpa

META = {
    'level': 'other',
    'explanation': 'Hostile-panic analysis: every panic-capable site (overflow / bounds / division asserts that rustc makes explicit in MIR, '
                   'panicking calls from a closed table: unwrap/expect, Index on maps / vectors / slices, explicit panics, asserted '
                   'preconditions), every run-time sized allocation and every loop in the functions reachable from the connection-setup '
                   'entry points is enumerated from the MIR of the current tree and must be discharged by a sound local argument: interval '
                   'abstract interpretation with branch refinement and relational guards (D-range, D-guard, D-const), payload intervals of '
                   'checked arithmetic, whole-program parameter / return / field summaries (D-callsite), the DSL shape model with tag-guard '
                   'narrowing (D-shape), constant-length producers (D-len), asserted preconditions at all call sites (D-precond), growable '
                   'writers (D-writer), input-consuming loops (D-progress), allocation bounds (<= 2^21 bytes or proportional to received data). '
                   'A site that is not discharged and whose failing condition depends on server-controlled data is reported.',
    'assumptions': ['external crates (yasna, byteorder, indexmap, native-tls, num-bigint) do not panic on the values passed to them',
                    'A-mem: no in-memory message buffer exceeds 2^28 bytes', 'stack depth and allocation failure for bounded sizes are out of scope',
                    'Option fields set only by client code (user_id, server_data, ...) are typestate, not server data'],
    'trusted_base': ['rustc nightly MIR construction', 'mirfacts exporter', 'rules/hpa.py, hpa_report.py, shapeflow.py, dsl.py, sym.py, facts.py'],
}

ENTRIES = ['core::client::Connector::connect', 'core::x224::Client::<S>::connect', 'core::x224::Client::<S>::read_connection_confirm',
           'core::mcs::Client::<S>::connect', 'core::mcs::Client::<S>::read_connect_response', 'core::mcs::read_attach_user_confirm',
           'core::mcs::read_channel_join_confirm', 'core::sec::connect', 'core::gcc::read_conference_create_response',
           'core::license::client_connect', 'core::tpkt::Client::<S>::read', 'core::x224::Client::<S>::read', 'core::mcs::Client::<S>::read',
           'nla::asn1::from_ber', 'nla::asn1::from_der']
STOP = ['nla::cssp', 'nla::ntlm', 'nla::rc4', 'core::global::Client::read', 'codec::', 'core::event']


def run(ctx):
    run_hpa(ctx, ENTRIES, STOP, {'functions': 180, 'sites': 140}, 'connection-setup')
