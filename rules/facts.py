"""Loader and shared analyses over the MIR facts written by mirfacts (see DESIGN.md 2.1-2.3).

Everything here is a *static* analysis of the facts: CFG, dominators, edge dominance,
provenance (backward slices), call graph.  Nothing executes the code under analysis.
"""
import json
import os
import re
from collections import defaultdict, deque


# --------------------------------------------------------------------------------------------
# small helpers on the JSON encoding of places / operands

def is_place_op(op):
    return isinstance(op, dict) and op.get('k') in ('copy', 'move')


def op_local(op):
    """local index if the operand is a bare local (no projection), else None"""
    if is_place_op(op) and not op['place']['p']:
        return op['place']['l']
    return None


def op_base(op):
    if is_place_op(op):
        return op['place']['l']
    return None


def op_const(op):
    """integer value of a constant operand, else None"""
    if isinstance(op, dict) and op.get('k') == 'const':
        return op.get('val')
    return None


def const_str(op):
    """string literal carried by a `const "..."` operand, else None"""
    if isinstance(op, dict) and op.get('k') == 'const':
        s = op.get('s', '')
        m = re.match(r'^(?:const )?"(.*)"$', s, re.S)
        if m:
            return m.group(1)
        m = re.match(r'^(?:const )?b"(.*)"$', s, re.S)
        if m:
            return m.group(1)
    return None


def place_fields(place):
    """names of field projections of a place, outermost last"""
    return [p['name'] for p in place['p'] if p['k'] == 'field']


def fmt_place(place, body=None):
    s = '_%d' % place['l']
    if body is not None:
        n = body.locals[place['l']].get('name')
        if n:
            s = n
    for p in place['p']:
        k = p['k']
        if k == 'deref':
            s = '(*%s)' % s
        elif k == 'field':
            s += '.' + p['name']
        elif k == 'index':
            s += '[_%d]' % p['l']
        elif k == 'cindex':
            s += '[%s%d]' % ('-' if p['from_end'] else '', p['offset'])
        elif k == 'downcast':
            s = '(%s as %s)' % (s, p['variant'])
        elif k == 'subslice':
            s += '[%d..%s%d]' % (p['from'], '-' if p['from_end'] else '', p['to'])
        else:
            s += '.?'
    return s


def fmt_op(op, body=None):
    if is_place_op(op):
        return fmt_place(op['place'], body)
    if isinstance(op, dict) and op.get('k') == 'const':
        if 'val' in op:
            return str(op['val'])
        return op.get('s', 'const')
    return '?'


class Call:
    __slots__ = ('body', 'block', 'term', 'callee', 'orig', 'virtual', 'args', 'dest', 'target',
                 'line', 'file', 'trait', 'kind', 'generic_args', 'unsafe')

    def __init__(self, body, block, term):
        self.body = body
        self.block = block
        self.term = term
        self.orig = term.get('callee')
        self.callee = term.get('resolved') or term.get('callee')
        self.kind = term.get('resolved_kind')
        self.virtual = term.get('resolved_kind') == 'Virtual'
        self.trait = term.get('callee_trait')
        self.args = term['args']
        self.dest = term['dest']
        self.target = term.get('target')
        self.line = term['span']['line']
        self.file = term['span']['file']
        self.generic_args = term.get('resolved_args') or term.get('callee_args') or []
        self.unsafe = term.get('callee_unsafe', False)
        if term['span'].get('exp'):
            # report the line of the macro call site for expanded code
            self.line = term['span'].get('cs_line', self.line)
            self.file = term['span'].get('cs_file', self.file)

    def where(self):
        return '%s:%d' % (self.file, self.line)

    def __repr__(self):
        return 'Call(%s @bb%d %s)' % (self.callee, self.block, self.where())


class Body:
    def __init__(self, j, crate):
        self.j = j
        self.crate = crate
        self.path = j['path']
        self.kind = j['kind']
        self.blocks = j['blocks']
        self.locals = j['locals']
        self.arg_count = j['arg_count']
        self.file = j['span']['file']
        self.line = j['span']['line']
        self.parent = j.get('parent')
        self.n = len(self.blocks)
        self._succ = None
        self._pred = None
        self._dom = None
        self._calls = None
        self._defs = None
        self._reach = None

    def where(self):
        return '%s:%d' % (self.file, self.line)

    # ---- CFG ------------------------------------------------------------------------------
    def term(self, b):
        return self.blocks[b]['term']

    def succs_of(self, b, unwind=False):
        t = self.blocks[b]['term']
        k = t['t']
        out = []
        if k == 'goto':
            out = [t['target']]
        elif k == 'switch':
            out = list(t['targets']) + [t['otherwise']]
        elif k in ('call', 'assert', 'drop'):
            if 'target' in t:
                out = [t['target']]
        if unwind and 'unwind' in t:
            out = out + [t['unwind']]
        return out

    @property
    def succ(self):
        if self._succ is None:
            self._succ = [self.succs_of(b) for b in range(self.n)]
        return self._succ

    @property
    def pred(self):
        if self._pred is None:
            p = [[] for _ in range(self.n)]
            for b in range(self.n):
                for s in self.succ[b]:
                    p[s].append(b)
            self._pred = p
        return self._pred

    def reachable(self, start=0, avoid_blocks=(), avoid_edges=()):
        """blocks reachable from `start` along normal (non-unwind) edges, never entering
        `avoid_blocks` nor following `avoid_edges` (set of (from,to))."""
        avoid_blocks = set(avoid_blocks)
        avoid_edges = set(avoid_edges)
        starts = [start] if isinstance(start, int) else list(start)
        seen = set()
        dq = deque()
        for s in starts:
            if s not in avoid_blocks:
                seen.add(s)
                dq.append(s)
        while dq:
            b = dq.popleft()
            for s in self.succ[b]:
                if s in seen or s in avoid_blocks or (b, s) in avoid_edges:
                    continue
                seen.add(s)
                dq.append(s)
        return seen

    @property
    def live_blocks(self):
        if self._reach is None:
            self._reach = self.reachable(0)
        return self._reach

    def dominated_by_edges(self, b, edges):
        """True iff every path entry -> b uses one of `edges`"""
        return b not in self.reachable(0, avoid_edges=edges)

    def dominated_by_blocks(self, b, blocks):
        blocks = set(blocks)
        if b in blocks:
            return True
        return b not in self.reachable(0, avoid_blocks=blocks)

    def dominates(self, a, b):
        return self.dominated_by_blocks(b, [a])

    def return_blocks(self):
        return [b for b in range(self.n) if self.blocks[b]['term']['t'] == 'return' and b in self.live_blocks]

    def can_reach(self, a, b, avoid_blocks=(), avoid_edges=()):
        return b in self.reachable(a, avoid_blocks, avoid_edges)

    def in_cycle(self, b):
        for s in self.succ[b]:
            if b in self.reachable(s):
                return True
        return False

    # ---- calls ----------------------------------------------------------------------------
    @property
    def calls(self):
        if self._calls is None:
            out = []
            for b in range(self.n):
                t = self.blocks[b]['term']
                if t['t'] == 'call' and not self.blocks[b]['cleanup']:
                    out.append(Call(self, b, t))
            self._calls = out
        return self._calls

    def calls_to(self, pred):
        """calls whose resolved callee satisfies pred (a str -> exact/regex match, or callable)"""
        return [c for c in self.calls if match_name(c.callee, pred) or (c.orig and match_name(c.orig, pred))]

    def call_at(self, b):
        t = self.blocks[b]['term']
        if t['t'] == 'call':
            return Call(self, b, t)
        return None

    # ---- definitions ----------------------------------------------------------------------
    @property
    def defs(self):
        """local -> list of ('stmt', block, idx, stmt) | ('call', block, Call) for whole-local assignments;
        partial assignments (projections) are recorded under key ('partial', local)."""
        if self._defs is None:
            d = defaultdict(list)
            for b in range(self.n):
                bl = self.blocks[b]
                if bl['cleanup']:
                    continue
                for i, st in enumerate(bl['stmts']):
                    if st['s'] == 'assign':
                        pl = st['place']
                        if not pl['p']:
                            d[pl['l']].append(('stmt', b, i, st))
                        else:
                            d[('partial', pl['l'])].append(('stmt', b, i, st))
                    elif st['s'] == 'setdiscr':
                        d[('partial', st['place']['l'])].append(('stmt', b, i, st))
                t = bl['term']
                if t['t'] == 'call':
                    pl = t['dest']
                    c = Call(self, b, t)
                    if not pl['p']:
                        d[pl['l']].append(('call', b, c))
                    else:
                        d[('partial', pl['l'])].append(('call', b, c))
            self._defs = d
        return self._defs

    def local_name(self, l):
        return self.locals[l].get('name')

    def local_ty(self, l):
        return self.locals[l]['ty']

    def locals_named(self, name):
        return [i for i, l in enumerate(self.locals) if l.get('name') == name]

    # ---- switch helpers -------------------------------------------------------------------
    def switch_edges(self, b):
        """for a switch terminator: dict value -> target, plus 'otherwise'"""
        t = self.blocks[b]['term']
        assert t['t'] == 'switch'
        d = {}
        for v, tg in zip(t['vals'], t['targets']):
            d[v] = tg
        d['otherwise'] = t['otherwise']
        return d

    def block_line(self, b):
        sp = self.blocks[b]['term']['span']
        if sp.get('exp'):
            return sp.get('cs_line', sp['line'])
        return sp['line']


def match_name(name, pred):
    if name is None:
        return False
    if callable(pred):
        return pred(name)
    if isinstance(pred, (list, tuple, set, frozenset)):
        return any(match_name(name, p) for p in pred)
    if isinstance(pred, re.Pattern):
        return pred.search(name) is not None
    return name == pred


# --------------------------------------------------------------------------------------------
TRANSPARENT = [
    # calls whose result is (a view of / a move of / a copy of) their first argument
    re.compile(r'^<.* as std::ops::Deref>::deref$'),
    re.compile(r'^<.* as std::ops::DerefMut>::deref_mut$'),
    re.compile(r'^std::vec::Vec::<T, A>::as_slice$'),
    re.compile(r'^std::vec::Vec::<T, A>::as_mut_slice$'),
    re.compile(r'^std::io::Cursor::<T>::new$'),
    re.compile(r'^std::io::Cursor::<T>::into_inner$'),
    re.compile(r'^std::io::Cursor::<T>::get_ref$'),
    re.compile(r'^<.* as std::clone::Clone>::clone$'),
    re.compile(r'^(std|core|alloc)::slice::<impl \[T\]>::to_vec$'),
    re.compile(r'^<.* as std::borrow::ToOwned>::to_owned$'),
    re.compile(r'^<.* as std::convert::AsRef<.*>>::as_ref$'),
    re.compile(r'^std::option::Option::<T>::as_ref$'),
    re.compile(r'^std::option::Option::<T>::as_mut$'),
    re.compile(r'^std::option::Option::<T>::unwrap$'),
    re.compile(r'^std::result::Result::<T, E>::unwrap$'),
    re.compile(r'^<std::result::Result<T, E> as std::ops::Try>::branch$'),
    re.compile(r'^<std::option::Option<T> as std::ops::Try>::branch$'),
    re.compile(r'^std::boxed::Box::<T>::new$'),
    re.compile(r'^<.* as std::convert::From<.*>>::from$'),
    re.compile(r'^<.* as std::convert::Into<.*>>::into$'),
    re.compile(r'^std::string::String::as_bytes$'),
    re.compile(r'^(std|core)::str::<impl str>::as_bytes$'),
    re.compile(r'^<.* as std::iter::IntoIterator>::into_iter$'),
    re.compile(r'^(std|core)::slice::<impl \[T\]>::iter$'),
    # repo-specific pure getter (a match returning the wrapped integer; verified call-free in c18 R18.1)
    re.compile(r'^model::data::Value::<Type>::inner$'),
]


def is_transparent(name):
    return any(r.search(name) for r in TRANSPARENT)


class Origin:
    """a leaf of a backward slice"""
    __slots__ = ('kind', 'call', 'param', 'const', 'extra', 'path')

    def __init__(self, kind, call=None, param=None, const=None, extra=None, path=()):
        self.kind = kind      # 'call' | 'param' | 'const' | 'field' | 'unknown' | 'agg'
        self.call = call
        self.param = param
        self.const = const
        self.extra = extra
        self.path = path      # tuple of field names applied after the origin (outermost last)

    def __repr__(self):
        if self.kind == 'call':
            return 'call:%s@bb%d%s' % (self.call.callee, self.call.block, ''.join('.' + p for p in self.path))
        if self.kind == 'param':
            return 'param:%d%s' % (self.param, ''.join('.' + p for p in self.path))
        if self.kind == 'const':
            return 'const:%s' % (self.const,)
        return '%s:%s' % (self.kind, self.extra)


def origins(body, op, transparent=is_transparent, max_nodes=4000, stop_at=None, visited=None):
    """Backward slice of an operand (flow-insensitive over the definitions of each local).
    Returns the list of Origins: calls that are not transparent, parameters, constants.
    Field paths read on the way are accumulated in Origin.path (innermost first).
    `stop_at(call)` -> True makes that call a leaf even if transparent."""
    out = []
    seen = set()
    work = [(op, ())]
    n = 0
    while work:
        o, path = work.pop()
        n += 1
        if n > max_nodes:
            out.append(Origin('unknown', extra='slice too large'))
            break
        if not isinstance(o, dict):
            continue
        if o.get('k') == 'const':
            out.append(Origin('const', const=o.get('val', o.get('s')), extra=o, path=path))
            continue
        if not is_place_op(o):
            out.append(Origin('unknown', extra=o))
            continue
        pl = o['place']
        l = pl['l']
        fpath = (tuple(p['name'] for p in pl['p'] if p['k'] == 'field') + path)[:8]
        key = (l, fpath)
        if key in seen:
            continue
        seen.add(key)
        if visited is not None:
            visited.add(l)
        if 1 <= l <= body.arg_count:
            out.append(Origin('param', param=l, path=fpath))
            # parameters may also be re-assigned; fall through to defs too
        ds = body.defs.get(l, [])
        if not ds and not (1 <= l <= body.arg_count):
            # only partial definitions (struct built field by field) or none
            pds = body.defs.get(('partial', l), [])
            if not pds:
                out.append(Origin('unknown', extra='no def of _%d' % l))
            for d in pds:
                if d[0] == 'stmt' and d[3]['s'] == 'assign':
                    _expand_rvalue(body, d[3]['rv'], fpath, work, out)
            continue
        for d in ds:
            if d[0] == 'call':
                c = d[2]
                if (stop_at is None or not stop_at(c)) and transparent(c.callee) and c.args:
                    work.append((c.args[0], fpath))
                else:
                    out.append(Origin('call', call=c, path=fpath))
            else:
                _expand_rvalue(body, d[3]['rv'], fpath, work, out)
    return out


def _expand_rvalue(body, rv, fpath, work, out):
    k = rv['rv']
    if k == 'use':
        work.append((rv['op'], fpath))
    elif k == 'cast':
        work.append((rv['op'], fpath))
    elif k in ('ref', 'rawptr'):
        work.append(({'k': 'copy', 'place': rv['place']}, fpath))
    elif k == 'agg':
        if rv.get('kind') == 'adt' and fpath and rv.get('fields') and fpath[0] in rv['fields']:
            i = rv['fields'].index(fpath[0])
            work.append((rv['ops'][i], fpath[1:]))
        elif rv.get('kind') == 'tuple' and fpath and fpath[0].isdigit() and int(fpath[0]) < len(rv['ops']):
            work.append((rv['ops'][int(fpath[0])], fpath[1:]))
        else:
            for o in rv['ops']:
                work.append((o, fpath))
            if not rv['ops']:
                out.append(Origin('agg', extra=rv))
    elif k == 'bin':
        work.append((rv['l'], fpath))
        work.append((rv['r'], fpath))
    elif k == 'un':
        work.append((rv['x'], fpath))
    elif k == 'discr':
        work.append(({'k': 'copy', 'place': rv['place']}, fpath))
    elif k == 'repeat':
        work.append((rv['op'], fpath))
    else:
        out.append(Origin('unknown', extra=rv))


# --------------------------------------------------------------------------------------------
class Prog:
    def __init__(self, factsdir):
        self.dir = factsdir
        self.crates = {}
        self.bodies = {}
        self.adts = {}
        self.impls = []
        for fn in sorted(os.listdir(factsdir)):
            if not fn.endswith('.json') or fn.endswith('.test.json'):
                continue
            j = json.load(open(os.path.join(factsdir, fn)))
            cr = j['crate']
            self.crates[cr] = j
            for b in j['bodies']:
                body = Body(b, cr)
                key = body.path if cr == 'rdp' else cr + '::' + body.path
                self.bodies[key] = body
            for a in j['adts']:
                key = a['path'] if cr == 'rdp' else cr + '::' + a['path']
                self.adts[key] = a
            for im in j['impls']:
                im['crate'] = cr
                self.impls.append(im)
        self._callers = None
        self._closures = None
        # helper functions that the reference tree does not have are inlined into their callers (see inline.py)
        if not os.environ.get('VERIF_NO_INLINE'):
            import inline
            inline.apply(self, os.path.dirname(os.path.dirname(os.path.abspath(__file__))))

    def body(self, path):
        b = self.bodies.get(path)
        if b is None:
            raise KeyError('anchor function not found in MIR facts: %s' % path)
        return b

    def find(self, pred):
        return [b for p, b in self.bodies.items() if match_name(p, pred)]

    def enum_discr(self, adt_path, variant):
        a = self.adts[adt_path]
        for v in a['variants']:
            if v['name'] == variant:
                return v.get('discr')
        raise KeyError('%s::%s' % (adt_path, variant))

    def enum_variants(self, adt_path):
        return [(v['name'], v.get('discr')) for v in self.adts[adt_path]['variants']]

    def creators_of(self, cbody):
        """the bodies in which the closure `cbody` is created: its parent, or - when the parent is a helper that was inlined away - the
        functions it was inlined into"""
        out, seen, work = [], set(), [cbody.parent]
        while work:
            p = work.pop()
            if p in seen or p is None:
                continue
            seen.add(p)
            b = self.bodies.get(p) or self.bodies.get(cbody.crate + '::' + p)
            if b is not None:
                out.append(b)
                continue
            into = getattr(self, 'inlined_into', {})
            for k in list(into.get(p, ())) + list(into.get(cbody.crate + '::' + p, ())):
                work.append(k)
        return out

    def closures_of(self, parent_path):
        parents = {parent_path}
        hp = getattr(self, 'helper_paths', {})
        work = [parent_path]
        while work:
            for h in hp.get(work.pop(), ()):
                if h not in parents:
                    parents.add(h)
                    work.append(h)
        return [b for b in self.bodies.values() if b.kind == 'Closure' and b.parent in parents]

    # ---- trait dispatch -------------------------------------------------------------------
    def impl_methods(self, trait, method):
        """all bodies implementing trait::method in the analysed crates"""
        out = []
        for im in self.impls:
            if im.get('trait') == trait:
                for it in im['items']:
                    if it['name'] == method:
                        key = it['path'] if im['crate'] == 'rdp' else im['crate'] + '::' + it['path']
                        if key in self.bodies:
                            out.append(self.bodies[key])
        return out

    def callees_of_call(self, c):
        """bodies a call may dispatch to (fan-out for virtual / unresolved trait calls)"""
        name = c.callee
        key = name if c.body.crate == 'rdp' or name in self.bodies else c.body.crate + '::' + name
        if key in self.bodies and not c.virtual:
            return [self.bodies[key]]
        bin_key = c.body.crate + '::' + name
        if bin_key in self.bodies and not c.virtual:
            return [self.bodies[bin_key]]
        if c.trait and (c.virtual or c.callee == c.orig):
            m = name.rsplit('::', 1)[-1]
            return self.impl_methods(c.trait, m)
        return []

    @property
    def callers(self):
        """callee body path -> list of Calls (closures are attached to their parent separately)"""
        if self._callers is None:
            d = defaultdict(list)
            for b in self.bodies.values():
                for c in b.calls:
                    for t in self.callees_of_call(c):
                        key = t.path if t.crate == 'rdp' else t.crate + '::' + t.path
                        d[key].append(c)
            self._callers = d
        return self._callers

    def absorbed(self, key):
        """a helper unknown to the reference tree whose every call has been inlined (inline.py): its code lives in its callers, the
        stand-alone body is dead for the analyses"""
        base = re.sub(r'(::\{closure#\d+\})+$', '', key)
        return base in getattr(self, 'absorbed_bodies', {})

    def caller_fns(self, fn, _seen=None):
        """keys of the functions that call `fn`, for who-may-call rules: a helper that the reference tree does not have (and that is
        inlined into its callers, see inline.py) is replaced by the functions calling it - extracting lines into a private helper
        does not add a caller in the sense of the rule.  A helper nobody calls is kept, so that it is reported."""
        _seen = _seen if _seen is not None else set()
        out = set()
        known = getattr(self, 'known_functions', None)
        for c in self.callers.get(fn, []):
            k = self.key_of(c.body)
            base = re.sub(r'(::\{closure#\d+\})+$', '', k)
            if known is None or base in known or base in _seen:
                out.add(k)
                continue
            _seen.add(base)
            up = self.caller_fns(base, _seen)
            for k2 in getattr(self, 'inlined_into', {}).get(base, ()):
                b2 = re.sub(r'(::\{closure#\d+\})+$', '', k2)
                if b2 in known:
                    up.add(k2)
                elif b2 not in _seen:
                    _seen.add(b2)
                    up |= self.caller_fns(b2, _seen) | {x for x in getattr(self, 'inlined_into', {}).get(b2, ()) if x in known}
            out |= up if up else {k}
        return out

    def key_of(self, body):
        return body.path if body.crate == 'rdp' else body.crate + '::' + body.path

    def reachable_bodies(self, roots, include_closures=True, stop=None):
        """transitive closure of the call graph from root body paths (dyn calls fan out to all impls;
        closures are reachable iff the function that creates them is)."""
        seen = {}
        dq = deque()
        for r in roots:
            b = self.body(r)
            seen[self.key_of(b)] = b
            dq.append(b)
        while dq:
            b = dq.popleft()
            nxt = []
            for c in b.calls:
                nxt.extend(self.callees_of_call(c))
            if include_closures:
                nxt.extend(self.closures_of(b.path))
            for t in nxt:
                k = self.key_of(t)
                if k in seen:
                    continue
                if stop and stop(t):
                    continue
                seen[k] = t
                dq.append(t)
        return seen


# --------------------------------------------------------------------------------------------
# uses of locals

def _ops_of_rvalue(rv):
    k = rv['rv']
    if k in ('use', 'cast', 'repeat'):
        return [rv['op']]
    if k == 'bin':
        return [rv['l'], rv['r']]
    if k == 'un':
        return [rv['x']]
    if k in ('ref', 'rawptr', 'discr'):
        return [{'k': 'copy', 'place': rv['place']}]
    if k == 'agg':
        return list(rv['ops'])
    return []


def local_uses(body, l):
    """all reads of local `l` (as operand base or index): list of dicts
    {block, kind: 'stmt'|'callarg'|'switch'|'assert'|'drop'|'callfn', stmt/call, argi}"""
    out = []
    for b in range(body.n):
        bl = body.blocks[b]
        if bl['cleanup']:
            continue
        for i, st in enumerate(bl['stmts']):
            if st['s'] == 'assign':
                for o in _ops_of_rvalue(st['rv']):
                    if is_place_op(o) and (o['place']['l'] == l or any(p['k'] == 'index' and p['l'] == l for p in o['place']['p'])):
                        out.append({'block': b, 'kind': 'stmt', 'stmt': st, 'idx': i, 'op': o})
                pl = st['place']
                if pl['p'] and (pl['l'] == l) and any(p['k'] == 'deref' for p in pl['p']):
                    out.append({'block': b, 'kind': 'store_through', 'stmt': st, 'idx': i})
        t = bl['term']
        k = t['t']
        if k == 'call':
            for ai, a in enumerate(t['args']):
                if is_place_op(a) and a['place']['l'] == l:
                    out.append({'block': b, 'kind': 'callarg', 'call': Call(body, b, t), 'argi': ai, 'op': a})
            if is_place_op(t['func']) and t['func']['place']['l'] == l:
                out.append({'block': b, 'kind': 'callfn', 'call': Call(body, b, t)})
        elif k == 'switch':
            if is_place_op(t['discr']) and t['discr']['place']['l'] == l:
                out.append({'block': b, 'kind': 'switch'})
        elif k == 'assert':
            if is_place_op(t['cond']) and t['cond']['place']['l'] == l:
                out.append({'block': b, 'kind': 'assert'})
        elif k == 'drop':
            if t['place']['l'] == l:
                out.append({'block': b, 'kind': 'drop'})
    return out


def forward_uses(body, l, through_transparent=True, limit=200):
    """transitive forward slice of a value held in local l: follows copies/moves/casts/field reads/
    transparent calls, and a value packed into a tuple local is followed through the reads of that tuple field only
    (`let (a, b) = if c { (&x, &y) } else { (&e, &e) }`); returns the 'sink' uses (anything that is not a plain forwarding)."""
    sinks = []
    seen = set()
    work = [(l, None)]
    while work and len(seen) < limit:
        item = work.pop()
        if item in seen:
            continue
        seen.add(item)
        x, fld = item
        for u in local_uses(body, x):
            k = u['kind']
            if k == 'drop':
                continue
            op = u.get('op')
            if fld is not None:
                # only reads of tuple field `fld` (or of the whole tuple) carry the value
                pr = op['place']['p'] if op is not None and is_place_op(op) else None
                if pr is None:
                    continue
                if pr and pr[0]['k'] == 'field':
                    if pr[0]['i'] != fld:
                        continue
                    sub = None
                elif not pr:
                    sub = fld
                else:
                    continue
            else:
                sub = None
            if k == 'stmt':
                st = u['stmt']
                rv = st['rv']
                if rv['rv'] in ('use', 'cast', 'ref', 'rawptr') and not st['place']['p']:
                    work.append((st['place']['l'], sub))
                    continue
                if rv['rv'] == 'discr':
                    # reading the discriminant only: not a use of the payload; record as 'discr'
                    sinks.append(dict(u, sink='discr'))
                    continue
                if rv['rv'] == 'agg' and rv.get('kind') == 'tuple' and not st['place']['p'] and sub is None:
                    for oi, o in enumerate(rv['ops']):
                        if o is op:
                            work.append((st['place']['l'], oi))
                    continue
                if rv['rv'] in ('use', 'cast') and st['place']['p']:
                    sinks.append(dict(u, sink='store'))
                    continue
                sinks.append(dict(u, sink=rv['rv']))
                continue
            if k == 'callarg':
                c = u['call']
                if through_transparent and is_transparent(c.callee) and u['argi'] == 0 and not c.dest['p']:
                    work.append((c.dest['l'], sub))
                    continue
                sinks.append(dict(u, sink='call'))
                continue
            sinks.append(dict(u, sink=k))
    return sinks
