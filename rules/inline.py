"""MIR-level inlining of helper functions that the reference tree does not have.

The rules are stated over the functions of the repository (anchors named in the properties).  A maintainer who extracts a few
lines into a new private helper does not change any property, but moves the constructs a rule looks at into a function the rule
has never heard of.  Before any rule runs, every call to a crate-local function whose def-path is *not* in spec/known_functions.json
(the function list of the reference tree) is therefore replaced by the callee's body (locals and blocks renumbered, parameters
assigned from the arguments, `return` turned into an assignment of the destination and a jump to the call's successor).  On the
reference tree itself this is the identity.  Recursive helpers and helpers above the size limit are left alone."""
import copy
import json
import os
from facts import Body

MAX_BLOCKS = 400
MAX_DEPTH = 4


def _remap(x, lo, bo, po):
    """renumber locals (+lo), blocks (+bo), promoted constants (+po) in a statement / terminator / operand structure"""
    if isinstance(x, list):
        return [_remap(v, lo, bo, po) for v in x]
    if not isinstance(x, dict):
        return x
    out = {}
    for k, v in x.items():
        if k == 'l' and isinstance(v, int) and not isinstance(v, bool):
            out[k] = v + lo
        elif k in ('target', 'otherwise', 'unwind') and isinstance(v, int) and not isinstance(v, bool):
            out[k] = v + bo
        elif k == 'targets' and isinstance(v, list):
            out[k] = [t + bo if isinstance(t, int) else t for t in v]
        elif k == 'promoted' and isinstance(v, int) and not isinstance(v, bool):
            out[k] = v + po
        elif k in ('span', 'fn_span', 'func'):
            out[k] = v
        else:
            out[k] = _remap(v, lo, bo, po)
    return out


def inline_body(prog, body, known, depth=0, stack=(), force=None):
    """returns a new body json with unknown local callees inlined, or None if nothing to do"""
    j = body.j
    todo = []
    for bi, bl in enumerate(j['blocks']):
        t = bl['term']
        if t['t'] != 'call' or t.get('resolved_kind') not in ('Item', None):
            continue
        name = t.get('resolved') or t.get('callee')
        if not name:
            continue
        key = name if (body.crate == 'rdp' or name in prog.bodies) else body.crate + '::' + name
        if key not in prog.bodies:
            key2 = body.crate + '::' + name
            key = key2 if key2 in prog.bodies else None
        if key is None or key in stack or key == prog.key_of(body):
            continue
        synthetic = bool(t.get('synthetic'))        # the closure call of a desugared combinator (desugar.py): always inlined
        if not synthetic and ((key in known) if force is None else (key not in force)):
            continue
        cb = prog.bodies[key]
        if (cb.kind == 'Closure' and not synthetic) or cb.n > MAX_BLOCKS or cb.crate != body.crate:
            continue
        if len(t['args']) != cb.arg_count or t['dest']['p']:
            continue
        todo.append((bi, key))
    if not todo:
        return None
    if not hasattr(prog, 'inlined_into'):
        prog.inlined_into = {}
    for bi, key in todo:
        prog.inlined_into.setdefault(key, set()).add(prog.key_of(body))
        if j['blocks'][bi]['term'].get('synthetic') and depth == 0:
            if not hasattr(prog, 'closure_inlined'):
                prog.closure_inlined = {}
            prog.closure_inlined[key] = prog.closure_inlined.get(key, 0) + 1
    nj = dict(j)
    nj['locals'] = list(j['locals'])
    nj['blocks'] = [dict(b) for b in j['blocks']]
    nj['promoted'] = list(j.get('promoted') or [])
    for bi, key in todo:
        cb = prog.bodies[key]
        # the callee may itself contain unknown helpers
        if depth < MAX_DEPTH:
            sub = inline_body(prog, cb, known, depth + 1, stack + (prog.key_of(body), key), force)
            cj = sub if sub is not None else cb.j
        else:
            cj = cb.j
        lo, bo, po = len(nj['locals']), len(nj['blocks']), len(nj['promoted'])
        nj['locals'].extend(copy.deepcopy(cj['locals']))
        nj['promoted'].extend(copy.deepcopy(cj.get('promoted') or []))
        call = nj['blocks'][bi]['term']
        line = call['span'].get('line', 0)
        for cbi, cbl in enumerate(cj['blocks']):
            nb = {'stmts': _remap(copy.deepcopy(cbl['stmts']), lo, bo, po), 'cleanup': cbl['cleanup']}
            t = cbl['term']
            if t['t'] == 'return':
                nb['stmts'] = nb['stmts'] + [{'s': 'assign', 'place': copy.deepcopy(call['dest']),
                                              'rv': {'rv': 'use', 'op': {'k': 'move', 'place': {'l': lo, 'p': []}}}, 'line': line, 'exp': False}]
                nb['term'] = {'t': 'goto', 'target': call['target'], 'span': t['span']} if call.get('target') is not None else {'t': 'unreachable', 'span': t['span']}
            else:
                nb['term'] = _remap(copy.deepcopy(t), lo, bo, po)
            nj['blocks'].append(nb)
        # the call block: parameters := arguments, then jump to the callee entry
        blk = nj['blocks'][bi]
        stmts = list(blk['stmts'])
        for i, a in enumerate(call['args']):
            stmts.append({'s': 'assign', 'place': {'l': lo + 1 + i, 'p': []}, 'rv': {'rv': 'use', 'op': a}, 'line': line, 'exp': False})
        nj['blocks'][bi] = {'stmts': stmts, 'term': {'t': 'goto', 'target': bo, 'span': call['span']}, 'cleanup': blk['cleanup']}
    return nj


def apply(prog, verif_dir):
    p = os.path.join(verif_dir, 'spec', 'known_functions.json')
    if not os.path.exists(p):
        prog.known_functions = set(prog.bodies)
        return 0
    known = set(json.load(open(p)))
    prog.known_functions = known
    n = 0
    if not os.environ.get('VERIF_NO_DESUGAR'):
        import desugar
        for key in list(prog.bodies):
            b = prog.bodies[key]
            nj = desugar.desugar_body(prog, b)
            if nj is not None:
                nb = Body(nj, b.crate)
                nb.parent = getattr(b, 'parent', None)
                prog.bodies[key] = nb
                n += 1
    for key in list(prog.bodies):
        b = prog.bodies[key]
        if b.kind == 'Closure' and False:
            continue
        nj = inline_body(prog, b, known)
        if nj is not None:
            nb = Body(nj, b.crate)
            for attr in ('parent',):
                if hasattr(b, attr):
                    setattr(nb, attr, getattr(b, attr))
            prog.bodies[key] = nb
            n += 1
    if n:
        prog._callers = None
    prog.inlined_bodies = n
    # helpers whose every call was inlined are dead as stand-alone bodies: taken out of the program, so that censuses over all bodies
    # ("who reads the password field", "who stores the state") see their code only where it now lives, in the callers
    prog.absorbed_bodies = {}
    prog.helper_paths = {}          # caller path -> paths of the helpers inlined into it (for closures_of)
    into = getattr(prog, 'inlined_into', {})
    changed = True
    while changed:
        changed = False
        for key in list(into):
            b = prog.bodies.get(key)
            if b is None or key in known or b.kind == 'Closure':
                continue
            if prog.callers.get(key):
                continue
            prog.absorbed_bodies[key] = prog.bodies.pop(key)
            prog._callers = None
            changed = True
    # a closure consumed by a desugared combinator lives on only inside the function that used it
    made = {}
    for b in prog.bodies.values():
        for bl in b.blocks:
            if bl['cleanup']:
                continue
            for st in bl['stmts']:
                if st['s'] == 'assign' and st['rv']['rv'] == 'agg' and st['rv'].get('kind') == 'closure':
                    for key in (st['rv']['closure'], b.crate + '::' + st['rv']['closure']):
                        if key in prog.bodies:
                            made[key] = made.get(key, 0) + 1
                            break
    for key, n_in in getattr(prog, 'closure_inlined', {}).items():
        if key in prog.bodies and made.get(key, 0) <= n_in:
            prog.absorbed_bodies[key] = prog.bodies.pop(key)
            prog._callers = None
    for key, callers in into.items():
        if key in prog.absorbed_bodies:
            for ck in callers:
                cb = prog.bodies.get(ck) or prog.absorbed_bodies.get(ck)
                if cb is not None:
                    prog.helper_paths.setdefault(cb.path, set()).add(prog.absorbed_bodies[key].path)
    return n


def force(prog, body, keys):
    """a copy of `body` in which the calls to the given (known) crate-local functions are inlined one level: used by rules that follow a
    value through a thin wrapper of the repository (e.g. tpkt::Client::start_ssl around Link::start_ssl)"""
    nj = inline_body(prog, body, set(), depth=MAX_DEPTH - 2, force=set(keys))
    if nj is None:
        return body
    nb = Body(nj, body.crate)
    nb.parent = getattr(body, 'parent', None)
    return nb
