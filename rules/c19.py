"""C19 - painting a bitmap into the window buffer is memory-safe and exact (DESIGN.md 4/C19)."""
from common import *
import hpa_prop
from fractions import Fraction
from poly import poly, peq, pshow, entails, cmp_constraint, padd, const, canon

META = {
    'level': 'other',
    'configs': ['gui'],        # the painter lives in the GUI binary: only the mstsc-rs feature build contains it
    'technique': 'unsafe-operation census, path-complete guard entailment (polynomial normal form + Fourier-Motzkin) and interval analysis over rustc MIR',
    'explanation': 'Static analysis of mstsc-rs fast_bitmap_transfer on the MIR of the current tree (binary built with the mstsc-rs feature). '
                   '(R19.1) census of unsafe operations: the painter uses only pointer offset and copy_nonoverlapping on two Vec<u32>, the byte->pixel '
                   'conversion is a safe element-wise chunks_exact(4)/from_ne_bytes collect, and Vec::from_raw_parts / transmute_vec / transmute are '
                   'unreachable from main; (R19.2) on every path to copy_nonoverlapping the comparisons evaluated on that path entail, by linear '
                   'arithmetic over the normalised address polynomials, dst_offset + count <= len(dst vec) and src_offset + count <= len(src vec), with '
                   'the same element type on both sides and no mutation of either Vec in between; (R19.3) every overflow / bounds / unwrap / slice '
                   'site of the painter is discharged by the interval analysis for all u16 rectangle coordinates (sites that only depend on the '
                   'client\'s own window width are listed as client-side); an error of decompress() is propagated; (R19.4) the address polynomials '
                   'are exactly row i of the image (i * bitmap.width) to row (i + dest_top) * window_width + dest_left, count = right - left + 1, '
                   'i over 0..=bottom-top, the row stride passed by the caller is the window width the buffer was allocated with, and nothing else '
                   'writes the buffer. (R19.5) decompress(), which produces the image, is total (rules R08.1/R08.3/R08.6 of C08). Decides these structural clauses, not the contents of the window after an arbitrary sequence of bitmaps.',
    'assumptions': ['the window width times (rectangle row + 1) fits in usize (client-chosen window size)',
                    'Vec::len() <= isize::MAX (std invariant), copy_nonoverlapping / offset contracts as documented by std'],
    'trusted_base': ['rustc nightly MIR construction', 'mirfacts exporter', 'rules/c19.py, poly.py, hpa.py, hpa_report.py, sym.py, facts.py'],
}

PAINT = 'mstsc_rs::fast_bitmap_transfer'
PTR_OFFSET = re.compile(r'^std::ptr::(const_ptr|mut_ptr)::<impl \*(const|mut) T>::(offset|add)$')
COPY = 'std::ptr::copy_nonoverlapping'
FORBIDDEN = re.compile(r'from_raw_parts|(^|::)transmute_vec$|^std::intrinsics::transmute|::set_len$|get_unchecked|^std::mem::transmute')


def vec_len(x):
    return ('call', 'std::vec::Vec::<T, A>::len', 0, (x,))


def ptr_parts(e):
    """(vec expression, offset expression or None) of a pointer built as vec.as_ptr()/as_mut_ptr() [.offset(E) | .add(E)]"""
    e = strip(e)
    off = None
    if e[0] == 'call' and PTR_OFFSET.match(e[1]):
        off = e[3][1]
        e = strip(e[3][0])
    if e[0] == 'call' and re.search(r'Vec::<T, A>::(as_ptr|as_mut_ptr)$', e[1]):
        return strip(e[3][0]), off
    return None, None


def run(ctx):
    P = ctx.prog
    b = ctx.body(PAINT)
    R = hpa_prop.report_for(P)
    pty = {i: b.local_ty(i) for i in range(1, b.j['arg_count'] + 1)}
    bmp = [i for i, t in pty.items() if 'BitmapEvent' in t]
    buf = [i for i, t in pty.items() if re.search(r'Vec<u32>', t)]
    wid = [i for i, t in pty.items() if t == 'usize']        # the row stride is the only usize parameter
    if not (len(bmp) == 1 and len(buf) == 1 and len(wid) == 1):
        ctx.fail('R19.0', 'signature', 'fast_bitmap_transfer no longer has the (buffer: &mut Vec<u32>, width, bitmap: BitmapEvent) parameters the rules are stated over: %s' % pty, b.where())
        return
    bmp, buf, wid = bmp[0], buf[0], wid[0]

    # ---- R19.1 unsafe census --------------------------------------------------------------------------------------------------
    reach = P.reachable_bodies([PAINT])
    n_unsafe = 0
    for k, bd in sorted(reach.items()):
        if not k.startswith('mstsc_rs::'):
            continue
        for c in bd.calls:
            if not c.unsafe or (c.term['span'].get('exp') and re.match(r"^(std|core)::fmt::Arguments::<'a>::new", c.callee)):
                continue
            n_unsafe += 1
            ok = c.callee == COPY or PTR_OFFSET.match(c.callee)
            ctx.check(bool(ok), 'R19.1', 'unsafe:%s:%s' % (k.split('::', 1)[1], c.callee.rsplit('::', 1)[-1]),
                      'unsafe operation %s (modelled by R19.2)' % c.callee.rsplit('::', 1)[-1], c.where(),
                      '%s performs the unsafe operation %s, which the bounds argument of R19.2 does not cover' % (k, c.callee))
    ctx.floor('R19.1', 'unsafe operations in the painter', n_unsafe, 3)
    roots = [k for k in P.bodies if k == 'mstsc_rs::main']
    if not roots:
        ctx.fail('R19.1', 'main', 'mstsc_rs::main not found')
    allr = P.reachable_bodies(roots)
    ctx.floor('R19.1', 'functions reachable from main', len(allr), 8)
    for k, bd in sorted(allr.items()):
        if not k.startswith('mstsc_rs::'):
            continue
        for c in bd.calls:
            ctx.check(not FORBIDDEN.search(c.callee), 'R19.1', 'reinterpret:%s:%s' % (k.split('::', 1)[1], c.callee.rsplit('::', 1)[-1]),
                      '', c.where(), '%s calls %s: a byte vector reinterpreted as pixels / unchecked length is outside what R19.2 covers '
                      '(Vec<u8> -> Vec<u32> through from_raw_parts has the wrong allocation layout)' % (k, c.callee)) if FORBIDDEN.search(c.callee) else None
        for bi in range(bd.n):
            for stt in bd.blocks[bi]['stmts']:
                if stt['s'] == 'assign' and stt['rv']['rv'] == 'cast' and stt['rv'].get('kind') == 'Transmute' and k in reach:
                    ctx.fail('R19.1', 'transmute:%s' % k, '%s transmutes a value in the painting code' % k, where(bd, bi))
    ctx.ok('R19.1', 'no from_raw_parts / transmute_vec / set_len / get_unchecked reachable from main in the GUI client', b.where())

    # ---- R19.2 / R19.4 guard entailment and row mapping ---------------------------------------------------------------------------
    n_copy = 0
    fld = lambda n: ('cast', ('field', ('param', bmp), n), 'usize')
    for path, st in feasible_paths(b, P, limit=200000):
        evs = list(st.events)
        for idx, ev in enumerate(evs):
            if ev[0] != 'call' or ev[1].callee != COPY:
                continue
            n_copy += 1
            c = ev[1]
            src, dst, cnt = [resolve(st, a) for a in ev[2]]
            sv, so = ptr_parts(src)
            dv, do = ptr_parts(dst)
            if sv is None or dv is None:
                ctx.fail('R19.2', 'copy:pointers', 'copy_nonoverlapping is not called on vec.as_ptr().offset(..) / vec.as_mut_ptr().offset(..): src=%s dst=%s'
                         % (show(strip(src))[:80], show(strip(dst))[:80]), c.where())
                continue
            atoms = {}
            cons = []
            for e2 in evs[:idx]:
                if e2[0] != 'branch':
                    continue
                x = fold(resolve(st, e2[2]))
                if x[0] == 'bin' and x[1] in ('Lt', 'Le', 'Gt', 'Ge', 'Eq'):
                    cons += cmp_constraint(x[1], x[2], x[3], branch_truth(e2), atoms)
            pc = poly(cnt, atoms)
            zero = ('const', 0, '0')
            pso, pdo = poly(so if so is not None else zero, atoms), poly(do if do is not None else zero, atoms)
            for side, vec, off in (('dst', dv, pdo), ('src', sv, pso)):
                ln = poly(vec_len(vec), atoms)
                g1 = padd(padd(off, pc), ln, -1)       # off + count - len <= 0
                g2 = padd(off, ln, -1)                 # off <= len
                g3 = padd({}, off, -1)                 # 0 <= off   (all atoms are unsigned: only needs the subtraction facts)
                ok1, ok2 = entails(cons, g1), entails(cons, g2)
                ctx.check(ok1 and ok2, 'R19.2', 'copy:%s:bounds' % side,
                          'the comparisons on the path entail %s_offset + count <= len(%s): %s + %s <= %s' % (side, side, pshow(off), pshow(pc), pshow(ln)),
                          c.where(), 'the checks before copy_nonoverlapping do not imply %s_offset + count <= len(%s vector): cannot derive  %s + %s <= %s  from the '
                          '%d comparisons on the path - a rectangle / image size can make the copy %s memory outside the buffer'
                          % (side, side, pshow(off), pshow(pc), pshow(ln), len(cons), 'write' if side == 'dst' else 'read'))
            # count itself must be provably >= 0 as an integer expression (no wrapped subtraction): count >= 0 entailed
            ctx.check(entails(cons, padd({}, pc, -1)), 'R19.2', 'copy:count:nonneg', 'count >= 0 without wrap-around: %s' % pshow(pc), c.where(),
                      'the pixel count %s can be negative (wraps to a huge usize) on a path to copy_nonoverlapping' % pshow(pc))
            # element types
            tys = set()
            for e2 in evs[:idx + 1]:
                if e2[0] == 'call' and (e2[1].callee == COPY or re.search(r'Vec::<T, A>::(as_ptr|as_mut_ptr)$', e2[1].callee)):
                    tys.add(tuple(e2[1].generic_args[:1]))
            ctx.check(len(tys) == 1, 'R19.2', 'copy:elemtype', 'source, destination and copy use one element type %s' % sorted(tys), c.where(),
                      'copy_nonoverlapping and the two vectors disagree on the element type: %s' % sorted(tys))
            # dst must be the buffer parameter, src the converted image
            ctx.check(dv == ('param', buf), 'R19.4', 'copy:dst_is_buffer', 'the destination is the window buffer parameter', c.where(),
                      'the destination vector of the copy is %s, not the window buffer' % show(dv)[:60])
            chain = [n[1] for n in walk(sv) if n[0] == 'call']
            conv_ok = sv[0] == 'call' and sv[1].endswith('Iterator::collect') and any(x.endswith('chunks_exact') for x in chain) \
                and any(x.endswith('BitmapEvent::decompress') for x in chain)
            ctx.check(conv_ok, 'R19.4', 'copy:src_is_image', 'the source is collect(map(chunks_exact(decompress()?, 4), bytes->u32))', c.where(),
                      'the source vector of the copy is not the element-wise u32 view of decompress()\'s result: %s' % show(sv)[:100])
            # row mapping
            rows = [n for n in walk(pso_expr(so)) if n[0] == 'call' and hpa_is_range_next(n[1])] if so is not None else []
            i_atoms = [a for a, e_ in atoms.items() if e_[0] == 'call' and hpa_is_range_next(e_[1])]
            if len(i_atoms) != 1:
                ctx.fail('R19.4', 'copy:row_index', 'the copy is not indexed by exactly one row counter (found %d)' % len(i_atoms), c.where())
                continue
            I = {(i_atoms[0],): Fraction(1)}
            W = poly(('param', wid))
            want_dst = padd(pmul2(padd(I, poly(fld('dest_top'))), W), poly(fld('dest_left')))
            want_src = pmul2(I, poly(fld('width')))
            want_cnt = padd(padd(poly(fld('dest_right')), poly(fld('dest_left')), -1), const(1))
            ctx.check(peq(pdo, want_dst), 'R19.4', 'map:dst', 'dst offset = (i + dest_top) * window_width + dest_left', c.where(),
                      'destination offset is %s, the rectangle row i belongs at (i + dest_top) * width + dest_left' % pshow(pdo))
            ctx.check(peq(pso, want_src), 'R19.4', 'map:src', 'src offset = i * bitmap.width', c.where(),
                      'source offset is %s, row i of the decoded image starts at i * bitmap.width' % pshow(pso))
            ctx.check(peq(pc, want_cnt), 'R19.4', 'map:count', 'count = dest_right - dest_left + 1', c.where(),
                      'count is %s, a rectangle row has dest_right - dest_left + 1 pixels' % pshow(pc))
            # the range of i
            rng_ok = False
            for e2 in evs[:idx]:
                if e2[0] == 'call' and e2[1].callee.endswith('IntoIterator>::into_iter'):
                    r = strip(resolve(st, e2[2][0]))
                    if r[0] == 'agg' and r[1].endswith('Range') and len(r[3]) == 2:
                        lo, hi = poly(r[3][0]), poly(r[3][1])
                        want_hi = padd(padd(poly(fld('dest_bottom')), poly(fld('dest_top')), -1), const(1))
                        rng_ok = lo == {} and peq(hi, want_hi)
            ctx.check(rng_ok, 'R19.4', 'map:rows', 'i ranges over 0 .. dest_bottom - dest_top + 1', c.where(),
                      'the row loop does not range over 0 .. dest_bottom - dest_top + 1')
        # nothing else writes the buffer: &mut uses of the buffer parameter on this path
        for ev in evs:
            if ev[0] == 'call':
                for a in ev[2]:
                    ra = a
                    if ra[0] in ('refm',) and strip(ra) == ('param', buf) and not re.search(r'Vec::<T, A>::as_mut_ptr$|DerefMut>::deref_mut$', ev[1].callee):
                        ctx.fail('R19.4', 'buffer:other_writer:%s' % ev[1].callee.rsplit('::', 1)[-1],
                                 'the window buffer is also passed mutably to %s' % ev[1].callee, ev[1].where())
    ctx.floor('R19.2', 'paths reaching copy_nonoverlapping', n_copy, 1)

    # the byte -> pixel closure: from_ne_bytes([p[0], p[1], p[2], p[3]])
    clos = [P.key_of(cb_) for cb_ in P.closures_of(ctx.body(PAINT).path)]       # (incl. closures of helpers inlined into the painter)
    n_conv = 0
    for k in clos:
        cb = P.bodies[k]
        for path, st in feasible_paths(cb, P, limit=1000):
            v = strip(resolve(st, st.env.get(0)))
            if v[0] == 'call' and re.search(r'u32::from_(ne|le)_bytes$|num::<impl u32>::from_(ne|le)_bytes$', v[1]):
                arr = strip(v[3][0])
                idxs = []
                if arr[0] == 'agg':
                    for el in arr[3]:
                        el = strip(el)
                        idxs.append(strip(el[2])[1] if el[0] == 'index' and strip(el[2])[0] == 'const' else canon(el)[-12:])
                n_conv += 1
                ctx.check(idxs == [0, 1, 2, 3], 'R19.4', 'conv:order', 'pixel j is bytes [4j, 4j+1, 4j+2, 4j+3] in memory order', cb.where(),
                          'the byte->pixel conversion assembles bytes in order %s, not [0, 1, 2, 3]' % idxs)
    ctx.floor('R19.4', 'byte->pixel conversion closures', n_conv, 1)

    # stride passed by the caller is the width the buffer was allocated with
    n_call = 0
    for k, bd in sorted(allr.items()):
        for c in [c for c in bd.calls if c.callee in (PAINT, PAINT.split('::', 1)[1])]:
            n_call += 1
            wa, ba = c.args[wid - 1], c.args[buf - 1]
            wsrc = [o.call.callee for o in origins(bd, wa) if o.kind == 'call']
            ok_w = any(x.endswith('Window::get_size') for x in wsrc)
            alloc = [o.call for o in origins(bd, ba) if o.kind == 'call' and o.call.callee == 'std::vec::from_elem']
            ok_b = bool(alloc) and all(any(o2.kind == 'call' and o2.call.callee.endswith('Window::get_size') for o2 in origins(bd, a.args[1])) for a in alloc)
            ctx.check(ok_w and ok_b, 'R19.4', 'caller:stride:%s' % k.split('::', 1)[-1], 'the row stride is the window width the buffer was allocated with (get_size)', c.where(),
                      '%s passes a row stride / buffer that do not both come from the window size (stride from %s)' % (k, wsrc[:3]))
    ctx.floor('R19.4', 'call sites of fast_bitmap_transfer', n_call, 1)

    # ---- R19.3 no panic -------------------------------------------------------------------------------------------------------------
    keys = [PAINT] + clos
    sites = R.sites_for(keys)
    n3 = 0
    for s in sites:
        fn = P.key_of(s.body)
        if s.verdict != 'discharged':
            local_discharge(ctx, P, b, s, wid)
        if s.verdict == 'discharged':
            n3 += 1
            ctx.ok('R19.3:' + (s.rule or ''), '%s %s: %s' % (fn, s.desc, s.detail), s.where())
        elif s.verdict == 'client':
            ctx.note('client-side: %s %s depends only on the window width chosen by the user' % (fn, s.desc))
        else:
            ctx.fail('R19.3', '%s|%s' % (fn.split('::', 1)[-1], s.sig), '%s: %s can panic for some rectangle / image: %s' % (fn, s.desc, s.detail), s.where())
    ctx.floor('R19.3', 'panic sites of the painter discharged', n3, 8)
    # decompress error is propagated
    n_err = 0
    for path, st in feasible_paths(b, P, limit=200000):
        for ev in st.events:
            if ev[0] == 'branch':
                d = strip(resolve(st, ev[2]))
                if d[0] == 'discr' and any(n[0] == 'call' and n[1].endswith('BitmapEvent::decompress') for n in walk(d)) and ev[3] not in (0, None):
                    n_err += 1
                    rk = ret_kind(strip(st.env.get(0)))
                    calls = [e2[1].callee for e2 in st.events if e2[0] == 'call']
                    ctx.check(rk in ('err', 'prop') and COPY not in calls, 'R19.3', 'decompress:err', 'a decompress() error returns Err before any copy', b.where(),
                              'a decompress() failure does not make fast_bitmap_transfer return Err (returns %s)' % rk)
    ctx.floor('R19.3', 'decompress() failure paths', n_err, 1)


    # ---- R19.5 the image handed to the painter comes from BitmapEvent::decompress, which must itself be total: its panic-freedom and bounds
    #      obligations (rules R08.1 / R08.3 / R08.6 of C08, evaluated on the same facts) are part of "painting never panics" ----------------
    import c08
    ctx.include(c08.run, ('R08.1', 'R08.3', 'R08.6'), 'R19.5')

def pso_expr(e):
    return e if e is not None else ('const', 0, '0')


def pmul2(a, b):
    from poly import pmul
    return pmul(a, b)


def hpa_is_range_next(name):
    import hpa
    return hpa.is_range_next(name)


def local_discharge(ctx, P, b, s, wid):
    """painter-specific discharge rules on top of the interval engine"""
    body = s.body
    if s.kind == 'slicefn' and re.search(r'chunks(_exact)?(_mut)?$', s.desc.split(' at ')[0]):
        # chunks_exact(n) panics only for n == 0
        c = body.call_at(s.block)
        n = op_const(c.args[1]) if c and len(c.args) > 1 else None
        if n:
            s.verdict, s.rule, s.detail = 'discharged', 'D-ext', 'chunk size is the non-zero constant %d' % n
        return
    if s.kind == 'bounds' and body.kind == 'Closure' and b in P.creators_of(body):
        # the closure is mapped over chunks_exact(N): its argument is a slice of exactly N elements
        n = None
        for c in b.calls:
            if c.callee.endswith('Iterator::map'):
                for o in origins(b, c.args[0]):
                    if o.kind == 'call' and re.search(r'chunks_exact$', o.call.callee):
                        n = op_const(o.call.args[1])
        t = body.blocks[s.block]['term']
        m = t.get('msg', {})
        idx = op_const(m.get('index')) if m.get('index') else None
        if idx is None and m.get('index') and op_local(m['index']) is not None:
            ds = body.defs.get(op_local(m['index']), [])
            if len(ds) == 1 and ds[0][0] == 'stmt' and ds[0][3]['rv']['rv'] == 'use':
                idx = op_const(ds[0][3]['rv']['op'])
        # the checked length must be the length of the closure's slice argument
        vis = set()
        origins(body, m['len'], visited=vis) if m.get('len') else None
        if n is not None and idx is not None and 0 <= idx < n and 2 in vis:
            s.verdict, s.rule, s.detail = 'discharged', 'D-ext', 'index %d into a chunk of chunks_exact(%d)' % (idx, n)
        return
    if s.kind == 'overflow':
        # overflow that needs an unbounded window width: client-side quantity
        vis = set()
        for o in s.ops:
            origins(body, o, visited=vis)
        if body is b and wid in vis:
            s.verdict = 'client'
