"""C04 - every PDU the client emits is well formed under a strict independent parser (DESIGN.md 4/C04, Appendix A.2/A.3)."""
import json
import os
from common import *
import dsl

META = {
    'level': 'other',
    'explanation': 'Shape-model rules on the message DSL recovered from the MIR of the current tree (every constructor, every field): '
                   '(R04.1) each length / count field is initialised from the length of the *same binding* that initialises the field it '
                   'describes, plus the constant the specification prescribes, and the reader-side closure subtracts the same constant '
                   '(table spec/length_fields.json from MS-RDPBCGR / T.123 / X.224); (R04.2) fields whose size the specification fixes are '
                   'initialised with a value whose length is that compile-time constant; (R04.3) NTLM length/offset pairs (rule R15.1 shared '
                   'with C15); (R04.6) both text encoders emit the code units of str::encode_utf16, little-endian, with no `char as u16` narrowing; (R04.7) the Client Info flag word announces INFO_UNICODE in every mode and auto-logon only adds its own bit (rule R17.4); (R04.4) string fields: the client name is limited in UTF-16 code units before being padded to 32 bytes with a '
                   'terminator, the Client Info strings carry a two-byte terminator excluded from their cb* counts; (R04.5) PER length form '
                   'thresholds (rule shared with C18) and frame headers (rules R14.3/R14.4 shared with C14). Constant field values, flag '
                   'semantics and yasna\'s BER are not decided.',
    'assumptions': ['len(to_vec(m)) = m.length() (C18 R18.1)', 'String::to_unicode encodes UTF-16LE'],
    'trusted_base': ['rustc nightly MIR construction', 'mirfacts exporter', 'rules/c04.py, dsl.py, sym.py, facts.py', 'spec/length_fields.json'],
}


def peel(e):
    """strip refs/casts/transparent views and to_vec (len(to_vec(m)) == m.length())"""
    for _ in range(40):
        e = unwrap_cast(e)
        if e[0] == 'call' and e[1] == 'model::data::to_vec' and e[3]:
            e = e[3][0]
            continue
        if e[0] == 'call' and e[1] == 'model::data::Array::<T>::inner' and e[3]:
            e = e[3][0]
            continue
        return e
    return e


def len_info(e):
    """(argument of the len()/length() call inside e, K) where e = len(arg) + K (K may be negative / 0); or (None, None)"""
    e = fold(e)
    vals = [n for n in walk(e) if n[0] == 'agg' and n[1] == 'model::data::Value']
    if vals:
        e = vals[0][3][0]
    K = 0
    for _ in range(6):
        e = unwrap_cast(fold(e))
        if e[0] == 'bin' and e[1] in ('Add', 'Sub') and fold(e[3])[0] == 'const':
            K += fold(e[3])[1] if e[1] == 'Add' else -fold(e[3])[1]
            e = e[2]
        else:
            break
    e = unwrap_cast(e)
    if e[0] == 'call' and re.search(r'(Message>?::length|::len)$', e[1]) and e[3]:
        return peel(e[3][0]), K
    return None, None


def const_len(e):
    """length of a byte-vector initialiser when it is a compile-time constant, else None"""
    e = unwrap_cast(e)
    if e[0] == 'call' and e[1] == 'std::vec::from_elem':
        n = fold(e[3][1])
        return n[1] if n[0] == 'const' else None
    if e[0] == 'mutated' and re.search(r'Vec::<T, A>::resize$', e[1]):
        n = fold(e[4][1]) if len(e) > 4 and len(e[4]) > 1 else ('unknown',)
        return n[1] if n[0] == 'const' else None
    if e[0] == 'const' and isinstance(e[2], str):
        m = re.match(r'^(?:const )?b"(.*)"$', e[2], re.S)
        if m:
            return len(m.group(1).encode().decode('unicode_escape').encode('latin-1'))
    if e[0] == 'call' and (e[1].endswith('to_vec') or e[1].endswith('to_owned')) and e[3]:
        return const_len(e[3][0])
    return None


def rule_utf16(ctx, rid):
    P = ctx.prog
    # ---- R04.6 the text encoders: UTF-16 code units from str::encode_utf16 (surrogate pairs above U+FFFF), written little-endian ---------
    for fn in ('<std::string::String as model::unicode::Unicode>::to_unicode', 'nla::ntlm::unicode'):
        ub = ctx.body(fn)
        scan = [ub] + P.closures_of(ub.path)         # (the per-code-unit step may sit in a closure: encode_utf16().flat_map(|c| ..))
        names = [c.callee for b_ in scan for c in b_.calls]
        enc = any(n.endswith('encode_utf16') for n in names) or any(n.endswith('Unicode>::to_unicode') or n.endswith('Unicode::to_unicode') for n in names)
        char_casts = []
        be = False
        le = any(n.endswith('to_le_bytes') for n in names) or any(n.endswith('Unicode>::to_unicode') for n in names)
        for b_, bi in [(b_, bi) for b_ in scan for bi in range(b_.n)]:
            for stt in b_.blocks[bi]['stmts']:
                if stt['s'] != 'assign':
                    continue
                rv = stt['rv']
                if rv['rv'] == 'cast' and is_place_op(rv['op']) and not rv['op']['place']['p'] and b_.local_ty(rv['op']['place']['l']) == 'char':
                    char_casts.append(where(b_, bi))
                if rv['rv'] == 'agg' and rv.get('adt') == 'model::data::Value':
                    le = le or rv.get('variant') == 'LE'
                    be = be or rv.get('variant') == 'BE'
        be = be or any(n.endswith('to_be_bytes') for n in names)
        ctx.check(enc and not char_casts and le and not be, rid, 'utf16:%s' % fn.rsplit('::', 1)[-1] + (':ntlm' if fn.startswith('nla') else ''),
                  '%s emits the UTF-16 code units of str::encode_utf16, little-endian' % fn.rsplit('::', 2)[-2 if fn.startswith('<') else -1], ub.where(),
                  '%s does not produce UTF-16LE through str::encode_utf16 (%s): characters above U+FFFF need a surrogate pair, a `char as u16` truncates them'
                  % (fn, 'char narrowed at %s' % char_casts[0] if char_casts else 'no encode_utf16' if not enc else 'byte order'))


def run(ctx):
    P = ctx.prog
    spec = json.load(open(os.path.join(os.path.dirname(__file__), '..', 'spec', 'length_fields.json')))

    # ---- R04.1 length relations inside one constructor ------------------------------------------------------
    n = 0
    for row in spec['same_constructor']:
        fn, lf, tf, K = row['fn'], row['length_field'], row['described'], row['K']
        for sh, fl in dsl.returned_components(P, fn):
            d = {f.key: f for f in fl}
            if lf not in d or tf not in d:
                ctx.fail('R04.1', 'rel:%s:%s:missing' % (fn, lf), '%s no longer has fields %s / %s' % (fn, lf, tf), sh.body.where())
                break
            n += 1
            init = d[lf].expr
            if d[lf].kind == 'Dyn':
                init = getattr(d[lf], 'inner_expr', init)
            arg, k = len_info(init)
            target = peel(d[tf].expr)
            same = arg is not None and same_value(arg, target)
            ctx.check(same and k == K, 'R04.1', 'rel:%s:%s:writer' % (fn, lf),
                      '%s.%s = len(%s) %+d, computed from the binding that initialises %s' % (fn.rsplit('::', 1)[-1], lf, tf, K, tf), sh.body.where(),
                      '%s: %s is initialised as len(%s) %+d; the specification requires len(%s) %+d computed from the very value written as %s'
                      % (fn, lf, show(arg)[:50] if arg else '?', k if k is not None else 0, tf, K, tf))
            if row.get('reader', True) and d[lf].kind == 'Dyn':
                outs = [(o['kind'], o['target'], dsl.size_formula(o['size'])) for o in (d[lf].option or []) if o['kind'] != 'panic']
                want = [('Size', tf, ('self', K, 1))]
                ctx.check(outs == want, 'R04.1', 'rel:%s:%s:reader' % (fn, lf),
                          'reader side: %s sizes %s with (value - %d)' % (lf, tf, K), sh.body.where(),
                          '%s: the reader closure of %s is %s; writer and specification use %s' % (fn, lf, outs, want))
            break
    ctx.floor('R04.1', 'length relations checked inside constructors', n, 11)

    # ---- R04.1b header + body pairs built by a caller ----------------------------------------------------------
    for row in spec['caller_pairs']:
        fn = row['caller']
        b = ctx.body(fn)
        found = 0
        for path, st in feasible_paths(b, P, limit=50000):
            for ev in path_calls(st, row['header_fn']):
                la = resolve(st, ev[2][row['len_arg']])
                inner = [n_ for n_ in walk(la) if n_[0] == 'call' and re.search(r'(Message>?::length|::len)$', n_[1])]
                if not inner:
                    ctx.fail('R04.1', 'pair:%s:%s:nolen' % (fn, row['header_fn']), '%s passes a length to %s that is not length() of a message' % (fn, row['header_fn']), where(b, ev[1].block))
                    continue
                body_obj = peel(inner[0][3][0])
                # the header and that same object are consecutive elements of one trame / component
                pushes = [p_ for p_ in st.events if p_[0] == 'call' and p_[1].callee in ('std::vec::Vec::<T, A>::push', 'indexmap::IndexMap::<K, V, S>::insert')]
                vals = [peel(resolve(st, p_[2][-1])) for p_ in pushes]
                hdr_i = [i for i, v in enumerate(vals) if v[0] == 'call' and v[1] == row['header_fn'] and v[2] == ev[1].block]
                ok = bool(hdr_i) and hdr_i[0] + 1 < len(vals) and same_value(vals[hdr_i[0] + 1], body_obj)
                found += 1
                ctx.check(ok, 'R04.1', 'pair:%s:%s' % (fn, row['header_fn']),
                          '%s: %s(len(x)) is immediately followed by that same x' % (fn.rsplit('::', 1)[-1], row['header_fn'].rsplit('::', 1)[-1]), where(b, ev[1].block),
                          '%s: the length given to %s is not the length of the element written right after the header' % (fn, row['header_fn']))
            if found:
                break
        ctx.floor('R04.1', 'header/body pairs in %s' % fn.rsplit('::', 1)[-1], found, row['count'])
        hb = ctx.body(row['header_fn'])
        # the constant the header adds to the length
        for sh, fl in dsl.returned_components(P, row['header_fn']):
            f = [x for x in fl if x.key == row['length_field']]
            k = None
            if f:
                e = fold(f[0].expr)
                if not any(n_[0] == 'param' for n_ in walk(e)):
                    continue        # the path on which the optional length is absent (`match length { None => 0, .. }`): a default, not a sum
                for n_ in walk(e):
                    if n_[0] == 'bin' and n_[1].startswith('Add') and fold(n_[3])[0] == 'const':
                        k = fold(n_[3])[1]
            ctx.check(k == row['K'], 'R04.1', 'pair:%s:K' % row['header_fn'], '%s stores its length argument + %d' % (row['header_fn'].rsplit('::', 1)[-1], row['K']), hb.where(),
                      '%s adds %s to the payload length; the specification counts %d header bytes' % (row['header_fn'], k, row['K']))
            break

    # PER length of MCS send-data request and of the conference create request
    mw = ctx.body('core::mcs::Client::<S>::write')
    for path, st in feasible_paths(mw, P):
        wl = path_calls(st, 'core::per::write_length')
        if not wl:
            continue
        a, k = len_info(resolve(st, wl[0][2][0]))
        pushes = [peel(resolve(st, p_[2][1])) for p_ in path_calls(st, 'std::vec::Vec::<T, A>::push')]
        ctx.check(a == ('param', 3) and k == 0 and pushes and pushes[-1] == ('param', 3), 'R04.1', 'mcs:write:length',
                  'MCS send-data: PER length = length of the message that is the last element', mw.where(),
                  'mcs::Client::write: the PER length is not the length of the user data that follows it')
        break
    cr = ctx.body('core::gcc::write_conference_create_request')
    for path, st in feasible_paths(cr, P):
        if ret_kind(st.env.get(0)) != 'ok':
            continue
        wl = path_calls(st, 'core::per::write_length')
        os_ = path_calls(st, 'core::per::write_octet_stream')
        a, k = len_info(resolve(st, wl[0][2][0])) if wl else (None, None)
        good = a == ('param', 1) and k == 14 and os_ and unwrap_cast(os_[-1][3][0]) == ('param', 1)
        ctx.check(good, 'R04.1', 'gcc:ccr:length', 'conference create request: length = len(user data) + 14 and the user data is written last', cr.where(),
                  'write_conference_create_request: connect-data length is len(%s) %+d (T.124: user data + 14 bytes of fixed PER fields)' % (show(a) if a else '?', k or 0))
        break

    # ---- R04.2 fixed-size fields ------------------------------------------------------------------------------------
    nfix = 0
    for row in spec['fixed_size']:
        for sh, fl in dsl.returned_components(P, row['fn']):
            f = [x for x in fl if x.key == row['field']]
            if not f:
                ctx.fail('R04.2', 'fixed:%s:%s:missing' % (row['fn'], row['field']), 'field %s of %s not found' % (row['field'], row['fn']))
                break
            nfix += 1
            e = f[0].expr
            if f[0].kind in ('Check',):
                cn = [c for c in calls_in(e, 'model::data::Check::<T>::new') if c[0] == 'call']
                e = cn[0][3][0] if cn else e
            L = const_len(e)
            ctx.check(L == row['size'], 'R04.2', 'fixed:%s:%s' % (row['fn'], row['field']),
                      '%s.%s is always %d bytes' % (row['fn'].rsplit('::', 1)[-1], row['field'], row['size']), sh.body.where(),
                      '%s: field %s is initialised with a value of length %s; the specification fixes it at %d bytes'
                      % (row['fn'], row['field'], L if L is not None else 'not known at compile time', row['size']))
            break
    ctx.floor('R04.2', 'fixed-size fields checked', nfix, 10)

    # ---- R04.3 NTLM offsets (shared with C15) --------------------------------------------------------------------------
    import c15
    ctx.include(c15.run, ('R15.1', 'R15.4'), 'R04.3')

    rule_utf16(ctx, 'R04.6')
    import c17
    ctx.include(c17.run, ('R17.4',), 'R04.7')
    # ---- R04.4 strings ---------------------------------------------------------------------------------------------------
    cd = ctx.body('core::gcc::client_core_data')
    # the text that is converted for clientName is limited in UTF-16 code units (<= 15) before the 32-byte resize
    unit_limit = None
    for path, st in feasible_paths(cd, P, limit=20000):
        for ev in path_branches(st):
            e = fold(resolve(st, ev[2]))
            if e[0] == 'bin' and e[1] in ('Gt', 'Ge', 'Lt', 'Le') and fold(e[3])[0] == 'const' and has_call(e[2], re.compile(r'char::methods::<impl char>::len_utf16$')):
                c = fold(e[3])[1]
                unit_limit = c if e[1] in ('Gt', 'Le') else c - 1
        tk = [c for c in cd.calls if c.callee.endswith('Iterator::take')]
        for c in tk:
            src = origins(cd, c.args[0])
            if any(o.kind == 'call' and o.call.callee.endswith('encode_utf16') for o in src):
                v = op_const(c.args[1])
                unit_limit = v if v is not None else unit_limit
        if unit_limit is not None:
            break
    ctx.check(unit_limit is not None and unit_limit <= 15, 'R04.4', 'clientName:units',
              'the client name is cut at %s UTF-16 code units (<= 15), leaving room for the terminator in the 32-byte field' % unit_limit, cd.where(),
              'client_core_data does not limit the client name in UTF-16 code units (limit found: %s): a name with supplementary-plane characters '
              'fills the 32-byte field without terminator or is cut inside a surrogate pair' % unit_limit)
    for sh, fl in dsl.returned_components(P, 'core::sec::rdp_infos'):
        d = {f.key: f for f in fl}
        for cb, fld, prm in (('cbDomain', 'domain', 2), ('cbUserName', 'userName', 3), ('cbPassword', 'password', 4)):
            e = d[fld].expr
            # whatever the buffer idiom (push(0) twice, extend_from_slice(&[0, 0]), [s, &[0, 0]].concat()): first piece = to_unicode(param), then zero bytes
            parts = byte_parts(e)
            pushes = []
            for p_ in parts[1:]:
                p_ = unwrap_cast(p_)
                if p_[0] == 'agg' and p_[1] == 'array':
                    pushes.extend(fold(o)[1] if fold(o)[0] == 'const' else None for o in p_[3])
                elif p_[0] == 'repeat':
                    try:
                        pushes.extend([fold(p_[1])[1]] * int(str(p_[2]).split('_')[0]))
                    except ValueError:
                        pushes.append(None)
                else:
                    pushes.append(fold(p_)[1] if fold(p_)[0] == 'const' else None)
            x = unwrap_cast(parts[0]) if parts else ('unknown',)
            base_ok = x[0] == 'call' and x[1].endswith('to_unicode') and ('param', prm) in list(walk(x))
            ctx.check(pushes == [0, 0] and base_ok, 'R04.4', 'infos:%s:terminator' % fld,
                      'Client Info %s = UTF-16LE(parameter %d) followed by a two-byte null terminator' % (fld, prm), sh.body.where(),
                      'rdp_infos: %s is not to_unicode(parameter %d) + two zero bytes (found %s)' % (fld, prm, pushes))
        for k_ in ('alternateShell', 'workingDir'):
            ctx.check(const_len(d[k_].expr) == 2, 'R04.4', 'infos:%s' % k_, 'empty %s is the two-byte terminator alone' % k_, sh.body.where())
        break

    # ---- R04.5 shared frame / PER rules -------------------------------------------------------------------------------------
    import c18
    import c14
    ctx.include(c18.run, ('R18.3',), 'R04.5')
    ctx.include(c14.run, ('R14.1', 'R14.3', 'R14.4'), 'R04.5')
