"""C03 - connection sequence conforms end to end (DESIGN.md 4/C03)."""
import json
import os
from common import *
import dsl

META = {
    'level': 'other',
    'explanation': 'Path-complete ordering and provenance analysis on the MIR of the current tree: for every feasible path '
                   '(including error and loop-iteration paths) of Connector::connect, mcs::Client::connect, sec::connect, '
                   'write_client_finalize and mcs::Client::shutdown the sequence of protocol sends/receives is extracted '
                   '(sends told apart by the provenance of the message argument) and must be a prefix of the mandated '
                   'sequence, equal to it on success paths (R03.1-R03.4, R03.6). Identifier provenance (R03.5): user id, '
                   'channel ids and share id used in outgoing PDUs derive from the server replies, and the share id is '
                   '(re)stored on every accepted demand-active. Reader layouts of the server PDUs parsed during the sequence '
                   'are compared with the MS-RDPBCGR layouts in spec/server_pdus.json (R03.8: a capability set the client cannot parse never aborts the demand-active; R03.9: the licence reply is recognised by the SEC_LICENSE_PKT bit alone (decided for all 65536 flag words); R03.7: field order, kinds, optional '
                   'trailing fields). "Connecting succeeds against every conforming server" as a value-level statement is not decided.',
    'assumptions': ['HashMap iteration order of the two static channels is unspecified (both joins are sent; their relative order is not decided)'],
    'trusted_base': ['rustc nightly MIR construction', 'mirfacts exporter', 'rules/c03.py, dsl.py, sym.py, facts.py', 'spec/server_pdus.json'],
}
META['explanation'] += ' Further: the connect response is decoded under BER (R03.11, R18.7), the deactivate-all reset is present and reachable so that every demand-active is answered (R03.12 = R12.5).'

XW = 'core::x224::Client::<S>::write'
XR = 'core::x224::Client::<S>::read'
MW = 'core::mcs::Client::<S>::write'
MR = 'core::mcs::Client::<S>::read'


def label_seq(st, table):
    """sequence of labels of the protocol calls on a path; table: list of (callee, labeller(ev, st) -> label or None)"""
    out = []
    for ev in st.events:
        if ev[0] != 'call':
            continue
        for callee, lab in table:
            if ev[1].callee == callee:
                l = lab(ev, st) if callable(lab) else lab
                if l:
                    out.append(l)
    return out


def msg_label(names):
    def f(ev, st):
        m = resolve(st, ev[2][-1])
        for n, lab in names:
            if has_call(m, n):
                return lab
        return 'write:?'
    return f


def literal_visits(body):
    """1 + the length of the longest array literal of the body: the number of visits of a loop head that unrolls a `for` over a literal list
    completely (sym.PathState._list_call gives the iterator its elements one by one)"""
    k = 0
    for bl in body.blocks:
        for s in bl['stmts']:
            if s['s'] == 'assign' and s['rv']['rv'] == 'agg' and s['rv']['kind'] == 'array':
                k = max(k, len(s['rv']['ops']))
    return k + 1


def check_sequences(ctx, body, table, full, iter_seq, rule, what, max_visits=1):
    P = ctx.prog
    n_ok = n_cut = n_err = 0
    for path, st in feasible_paths(body, P, limit=200000, max_visits=max_visits):
        v = strip(st.env.get(0))
        seq = label_seq(st, table)
        rk = ret_kind(st.env.get(0))
        if st.cut:
            exp = full + iter_seq
            # a loop that performs no protocol step (filling a table, converting a string): only the order of what preceded it is checked
            head = path[-1]
            cyc = set(path[path.index(head):-1])
            names = {c for c, _ in table}
            if not any(ev[0] == 'call' and ev[1].block in cyc and ev[1].callee in names for ev in st.events):
                ctx.check(seq == exp[:len(seq)], rule, '%s:prefix' % what, '%s: steps before a silent loop are a prefix of the mandated sequence' % what, body.where(),
                          '%s: the steps %s performed before a loop are not a prefix of the mandated order %s' % (what, seq, exp))
                continue
            n_cut += 1
            ctx.check(seq == exp, rule, '%s:iter' % what, '%s loop iteration: %s' % (what, ' -> '.join(iter_seq)), body.where(),
                      '%s: a loop iteration performs %s instead of %s' % (what, seq, exp))
        elif rk in ('ok',) or (rk.startswith('call:') and seq == full):
            n_ok += 1
            ctx.check(seq == full, rule, '%s:ok' % what, '%s success path: %s' % (what, ' -> '.join(full)), body.where(),
                      '%s succeeds after the sequence %s; mandated: %s' % (what, seq, full))
        elif v[0] == 'unknown':
            continue
        else:
            n_err += 1
            exp = full + iter_seq
            ctx.check(seq == exp[:len(seq)], rule, '%s:prefix' % what,
                      '%s failing path performed a prefix of the mandated sequence (%d steps)' % (what, len(seq)), body.where(),
                      '%s: on a failing path the steps %s are not a prefix of the mandated order %s (a message is sent before the reply it depends on)'
                      % (what, seq, exp))
    return n_ok, n_cut, n_err


def run(ctx):
    P = ctx.prog

    # ---- R03.1 Connector::connect ---------------------------------------------------------------------
    cc = ctx.body('core::client::Connector::connect')
    table = [('core::x224::Client::<S>::connect', 'x224.connect'), ('core::mcs::Client::<S>::new', 'mcs.new'),
             ('core::mcs::Client::<S>::connect', 'mcs.connect'), ('core::sec::connect', 'sec.connect'),
             ('core::global::Client::new', 'global.new')]
    full = ['x224.connect', 'mcs.new', 'mcs.connect', 'sec.connect', 'global.new']
    ok, _, err = check_sequences(ctx, cc, table, full, [], 'R03.1', 'Connector::connect')
    ctx.floor('R03.1', 'success paths of Connector::connect (password/hash x restricted admin x nla)', ok, 4)
    for path, st in feasible_paths(cc, P):
        if ret_kind(st.env.get(0)) != 'ok':
            continue
        mn = path_calls(st, 'core::mcs::Client::<S>::new')
        gn = path_calls(st, 'core::global::Client::new')
        good = mn and has_call(resolve(st, mn[0][2][0]), 'core::x224::Client::<S>::connect')
        ctx.check(good, 'R03.1', 'connector:layers', 'the MCS layer is built on the negotiated X.224 client', cc.where())
        if gn:
            a0, a1 = resolve(st, gn[0][2][0]), resolve(st, gn[0][2][1])
            ctx.check(has_call(a0, 'core::mcs::Client::<S>::get_user_id') and has_call(a1, 'core::mcs::Client::<S>::get_global_channel_id'),
                      'R03.5', 'connector:ids', 'the global channel is created with the user id and channel id obtained from MCS', cc.where(),
                      'Connector::connect does not hand the MCS-assigned user id / global channel id to the global channel')
            # ... and each lands in the field of that meaning: the constructor stores parameter 1 as user_id and parameter 2 as channel_id
            gb = ctx.body('core::global::Client::new')
            wiring = {}
            for gp, gst in feasible_paths(gb, P, limit=1000):
                rv = strip(resolve(gst, gst.env.get(0)))
                if rv[0] == 'agg' and len(rv) > 4:
                    for fname, fe in zip(rv[4], rv[3]):
                        fe = unwrap_cast(fe)
                        if fe[0] == 'param':
                            wiring[fname] = fe[1]
            ctx.check(wiring.get('user_id') == 1 and wiring.get('channel_id') == 2, 'R03.5', 'global:new_wiring',
                      'global::Client::new stores its first argument (the MCS user id) as user_id and its second (the global channel id) as channel_id', gb.where(),
                      'global::Client::new stores its arguments as %s: the caller passes (user id, channel id), so PDUs would carry the channel id as their source and '
                      'the user id as their target' % {k: v for k, v in wiring.items() if k in ('user_id', 'channel_id')})

    # ---- R03.2 mcs::Client::connect -----------------------------------------------------------------------
    mc = ctx.body('core::mcs::Client::<S>::connect')
    # stated over the primitive sends / receives / parses: the thin wrapper around the connect-response read is looked through, so that
    # merging it into connect (or splitting connect further) does not change the sequence
    import inline
    mc = inline.force(P, mc, ['core::mcs::Client::<S>::read_connect_response'])
    wl = msg_label([('core::mcs::erect_domain_request', 'send:erect-domain'), ('core::mcs::attach_user_request', 'send:attach-user'),
                    ('core::mcs::channel_join_request', 'send:channel-join')])
    table = [('core::mcs::Client::<S>::write_connect_initial', 'send:connect-initial'),
             ('core::gcc::read_conference_create_response', 'parse:connect-response'),
             (XW, wl), (XR, 'recv'), ('core::mcs::read_attach_user_confirm', 'parse:attach-user-confirm'),
             ('core::mcs::read_channel_join_confirm', 'parse:channel-join-confirm')]
    full = ['send:connect-initial', 'recv', 'parse:connect-response', 'send:erect-domain', 'send:attach-user', 'recv', 'parse:attach-user-confirm']
    it = ['send:channel-join', 'recv', 'parse:channel-join-confirm']
    ok, cut, err = check_sequences(ctx, mc, table, full, it, 'R03.2', 'mcs::Client::connect')
    ctx.floor('R03.2', 'success paths of mcs::Client::connect', ok, 1)
    ctx.floor('R03.2', 'channel-join iteration paths', cut, 1)
    # loop is over self.channel_ids, join uses self.user_id and the iterated channel id; confirm checked against both
    for path, st in feasible_paths(mc, P, limit=200000):
        if not st.cut:
            continue
        js = path_calls(st, 'core::mcs::channel_join_request')
        cf = path_calls(st, 'core::mcs::read_channel_join_confirm')
        if js and cf:
            a_uid, a_cid = resolve(st, js[0][2][0]), resolve(st, js[0][2][1])
            def is_uid(e):
                # the server-assigned user id: the user_id field, or the value it is stored from (the attach-user confirm) on this path
                return any(n[0] == 'field' and n[2] == 'user_id' for n in walk(e)) or has_call(e, 'core::mcs::read_attach_user_confirm')
            uid_ok = is_uid(a_uid)
            cid_ok = has_call(a_cid, re.compile(r'hash_map::Values.*Iterator>::next$'))
            c_uid, c_cid = resolve(st, cf[0][2][0]), resolve(st, cf[0][2][1])
            cf_ok = is_uid(c_uid) and has_call(c_cid, re.compile(r'hash_map::Values.*Iterator>::next$'))
            ctx.check(uid_ok and cid_ok and cf_ok, 'R03.5', 'mcs:join_ids',
                      'each join request carries the attached user id and the iterated channel id, and the confirm is checked against the same pair', mc.where(),
                      'channel join request/confirm do not use the server-assigned user id and the channel being joined')
    # user_id stores
    stores = field_stores(P, 'core::mcs::Client', 'user_id')
    good = set(k for k, _ in stores) == {'core::mcs::Client::<S>::connect'}
    src_ok = all(any(o.kind == 'call' and o.call.callee == 'core::mcs::read_attach_user_confirm' for o in origins(P.bodies[k], op)) for k, op in stores)
    ctx.check(good and src_ok, 'R03.5', 'mcs:user_id', 'mcs user_id is stored only from read_attach_user_confirm\'s result', mc.where(),
              'mcs::Client::user_id is assigned in %s from something else than the attach-user confirm' % sorted(set(k for k, _ in stores)))
    mw = ctx.body(MW)
    for path, st in feasible_paths(mw, P):
        xs = path_calls(st, XW)
        if xs:
            m = resolve(st, xs[0][2][1])
            ctx.check(any(n[0] == 'field' and n[2] == 'user_id' for n in walk(m)) and any(n[0] == 'field' and n[2] == 'channel_ids' for n in walk(m)),
                      'R03.5', 'mcs:write_ids', 'send-data requests carry self.user_id and the id registered for the channel name', mw.where(),
                      'mcs::Client::write does not take initiator / channel id from the negotiated values')

    # ---- R03.3 sec::connect ------------------------------------------------------------------------------------
    sc = ctx.body('core::sec::connect')
    table = [(MW, msg_label([('core::sec::rdp_infos', 'send:client-info')])), (MR, 'recv'), ('core::license::client_connect', 'parse:licence')]
    ok, _, _ = check_sequences(ctx, sc, table, ['send:client-info', 'recv', 'parse:licence'], [], 'R03.3', 'sec::connect')
    ctx.floor('R03.3', 'success paths of sec::connect', ok, 1)

    # ---- R03.4 finalize order -------------------------------------------------------------------------------------
    wf = ctx.body('core::global::Client::write_client_finalize')

    def fin_label(ev, st):
        m = resolve(st, ev[2][1])
        if has_call(m, 'core::global::ts_synchronize_pdu'):
            return 'synchronize'
        if has_call(m, 'core::global::ts_font_list_pdu'):
            return 'font-list'
        for c in calls_in(m, 'core::global::ts_control_pdu'):
            if c[0] == 'call':
                a = [n for n in walk(c[3][0]) if n[0] == 'agg' and n[1] == 'core::global::Action']
                if a:
                    return 'control:' + a[0][2]
        return 'data:?'
    table = [('core::global::Client::write_data_pdu', fin_label)]
    full = ['synchronize', 'control:CtrlactionCooperate', 'control:CtrlactionRequestControl', 'font-list']
    ok, _, _ = check_sequences(ctx, wf, table, full, [], 'R03.4', 'write_client_finalize', max_visits=literal_visits(wf))
    ctx.floor('R03.4', 'success paths of write_client_finalize', ok, 1)
    ctx.check(P.enum_discr('core::global::Action', 'CtrlactionCooperate') == 4 and P.enum_discr('core::global::Action', 'CtrlactionRequestControl') == 1
              and P.enum_discr('core::global::Action', 'CtrlactionGrantedControl') == 2,
              'R03.4', 'actions', 'control action codes are the MS-RDPBCGR values (request=1, granted=2, cooperate=4)', '')

    # ---- R03.5 share id ------------------------------------------------------------------------------------------------
    da = ctx.body('core::global::Client::read_demand_active_pdu')
    n_true = 0
    for path, st in feasible_paths(da, P, limit=200000):
        v = strip(st.env.get(0))
        if not (v[0] == 'agg' and v[2] == 'Ok' and fold(v[3][0])[0] == 'const' and fold(v[3][0])[1] == 1):
            continue
        n_true += 1
        st_share = [ev for ev in st.events if ev[0] == 'store' and ev[2]['p'] and ev[2]['p'][-1].get('name') == 'share_id']
        good = len(st_share) == 1
        if good:
            e = resolve(st, st_share[0][3])
            strs = [c[2] for c in consts_in(e) if isinstance(c[2], str)]
            good = any('"shareId"' in s_ for s_ in strs) and e[0] == 'agg' and e[2] == 'Some'
        ctx.check(good, 'R03.5', 'global:share_id_store',
                  'every accepted demand-active stores Some(shareId field of that PDU) into self.share_id', da.where(),
                  'read_demand_active_pdu accepts a demand-active without (re)storing its shareId: after a reactivation the old share id would be sent')
    ctx.floor('R03.5', 'accepting paths of read_demand_active_pdu', n_true, 1)
    # ---- R03.9 the licensing exchange is entered for every security header that carries SEC_LICENSE_PKT (other flags may accompany it) ----
    from c13 import subst_expr
    sc = ctx.body('core::sec::connect')
    n_lic = 0
    accept = set()
    for path, st in feasible_paths(sc, P, limit=200000):
        if not path_calls(st, ['core::license::client_connect']):
            continue
        leaf = None
        brs = []
        for ev in st.events:
            if ev[0] == 'call' and ev[1].callee == 'core::license::client_connect':
                break
            if ev[0] == 'branch':
                e = resolve(st, ev[2])
                cand = [n for n in walk(e) if n[0] == 'field' and n[2] == '0' and any(x[0] == 'variant' and x[2] == 'U16' for x in walk(n))
                        and '"securityFlag"' in str(n)]
                if cand and strip(ev[2])[0] == 'bin':
                    leaf = max(cand, key=lambda n: len(str(n))) if leaf is None else leaf
                    brs.append(ev)
        if leaf is None:
            continue
        n_lic += 1
        for v in range(0, 65536):
            ok = True
            for ev in brs:
                e = fold(subst_expr(resolve(st, ev[2]), leaf, ('const', v, str(v))))
                if e[0] == 'const' and e[1] is not None:
                    if bool(e[1]) != branch_truth(ev):
                        ok = False
                        break
                else:
                    ok = None
                    break
            if ok:
                accept.add(v)
    want = {v for v in range(65536) if v & 0x0080}
    ctx.check(n_lic >= 1 and accept == want, 'R03.9', 'licence:flag_test',
              'the licensing reply is accepted exactly when SEC_LICENSE_PKT (0x0080) is set in securityFlag, whatever other flags accompany it', sc.where(),
              'sec::connect enters the licensing exchange for %d of the 32768 flag words that carry SEC_LICENSE_PKT and for %d that do not (e.g. 0x%04x): a conforming '
              'licence reply with additional flags (0x0280 = LICENSE_PKT | LICENSE_ENCRYPT_SC) must not be rejected'
              % (len(accept & want), len(accept - want), min(want - accept) if want - accept else 0))
    ctx.floor('R03.9', 'paths of sec::connect reaching the licensing exchange', n_lic, 1)
    # ---- R03.8 a capability set the client cannot parse does not abort the activation (MS-RDPBCGR 1.3.1.1: unknown sets are ignored) ---
    n_tol = 0
    for path, st in feasible_paths(da, P, limit=200000):
        for br in path_branches(st):
            d = strip(resolve(st, br[2]))
            if d[0] == 'discr' and br[3] == 1:
                x = unwrap_cast(d[1])
                if x[0] == 'call' and x[1].endswith('Capability::from_capability_set'):
                    n_tol += 1
                    rk = ret_kind(strip(st.env.get(0))) if not st.cut else 'loop'
                    ctx.check(rk != 'err' and rk != 'prop', 'R03.8', 'capability:tolerant',
                              'a capability set that cannot be parsed is skipped: the loop continues and the demand-active is still accepted', da.where(),
                              'read_demand_active_pdu returns an error when one capability set cannot be parsed: a conforming server that sends a '
                              'capability set unknown to the client gets no confirm-active / finalisation (the sequence stops)')
    ctx.floor('R03.8', 'paths through the Err arm of Capability::from_capability_set', n_tol, 1)
    stores = field_stores(P, 'core::global::Client', 'share_id')
    ctx.check(set(k for k, _ in stores) == {'core::global::Client::read_demand_active_pdu'}, 'R03.5', 'global:share_id_writers',
              'share_id is stored only by read_demand_active_pdu', '', 'share_id is stored in %s' % sorted(set(k for k, _ in stores)))
    for fn, callee, argi in (('core::global::Client::write_confirm_active_pdu', 'core::global::ts_confirm_active_pdu', 0),
                             ('core::global::Client::write_data_pdu', 'core::global::share_data_header', 0)):
        b = ctx.body(fn)
        for c in b.calls_to(callee):
            o = origins(b, c.args[argi])
            ctx.check(any(x.kind == 'param' and x.param == 1 and x.path[-1:] == ('share_id',) for x in o), 'R03.5', 'global:share_id_use:%s' % callee,
                      '%s sends self.share_id' % fn.rsplit('::', 1)[-1], c.where(), '%s does not send the stored share id' % fn)
    wp = ctx.body('core::global::Client::write_pdu')
    for c in wp.calls_to('core::global::share_control_header'):
        o = origins(wp, c.args[1])
        ctx.check(any(x.kind == 'param' and x.param == 1 and x.path[-1:] == ('user_id',) for x in o), 'R03.5', 'global:pdu_source',
                  'share control headers carry the MCS user id as PDU source', c.where())

    # ---- R03.6 shutdown -----------------------------------------------------------------------------------------------
    sh = ctx.body('core::mcs::Client::<S>::shutdown')

    def sd_label(ev, st):
        m = resolve(st, ev[2][1])
        for c in calls_in(m, 'core::mcs::mcs_pdu_header'):
            if c[0] == 'call':
                a = [n for n in walk(c[3][0]) if n[0] == 'agg' and n[1] == 'core::mcs::DomainMCSPDU']
                if a:
                    return 'send:' + a[0][2]
        return 'send:?'
    table = [(XW, sd_label), ('core::x224::Client::<S>::shutdown', 'close')]
    ok, _, _ = check_sequences(ctx, sh, table, ['send:DisconnectProviderUltimatum', 'close'], [], 'R03.6', 'mcs::Client::shutdown')
    ctx.floor('R03.6', 'success paths of mcs::Client::shutdown', ok, 1)
    rs = ctx.body('core::client::RdpClient::<S>::shutdown')
    ctx.check(len(rs.calls_to('core::mcs::Client::<S>::shutdown')) == 1, 'R03.6', 'rdpclient:shutdown', 'RdpClient::shutdown delegates to mcs shutdown', rs.where())
    ctx.check(P.enum_discr('core::mcs::DomainMCSPDU', 'DisconnectProviderUltimatum') == 8, 'R03.6', 'dpu:code', 'DisconnectProviderUltimatum = 8 (T.125)', '')

    # ---- R03.7 reader layouts of server PDUs vs MS-RDPBCGR --------------------------------------------------------------
    spec = json.load(open(os.path.join(os.path.dirname(__file__), '..', 'spec', 'server_pdus.json')))
    n = 0
    for fn, fields in spec['layouts'].items():
        rcs = dsl.returned_components(P, fn)
        if not rcs:
            ctx.fail('R03.7', 'layout:missing:%s' % fn, 'constructor %s of a server PDU was not found / builds no component' % fn)
            continue
        for sh_, fl in rcs:
            n += 1
            got = [[f.key, f.kind if f.kind not in ('Check', 'Dyn') else dsl.base_kind(f.ty), f.kind == 'Opt'] for f in fl]
            got = [[k, ('Opt:' + dsl.base_kind(f.inner_ty)) if f.kind == 'Opt' else kd, o] for (k, kd, o), f in zip(got, fl)]
            want = [[x[0], x[1], x[1].startswith('Opt:')] for x in fields]
            # a reader may be more lenient than the specification (mandatory field read as optional), never stricter
            for g, w in zip(got, want):
                if g[2] and not w[2] and g[1] == 'Opt:' + w[1]:
                    g[1], g[2] = w[1], False
            ctx.check(got == want, 'R03.7', 'layout:%s' % fn,
                      '%s reads %s' % (fn.rsplit('::', 1)[-1], ', '.join('%s:%s' % (x[0], x[1]) for x in want)), sh_.body.where(),
                      '%s parses %s but the specification lays the PDU out as %s (a conforming server would be rejected or misread)'
                      % (fn, [(x[0], x[1]) for x in got], [(x[0], x[1]) for x in want]))
            break
    ctx.floor('R03.7', 'server PDU layouts compared', n, 10)


    # ---- R03.10 PER length determinants of the MCS envelopes (rule R18.3 of C18, same facts): a 128-byte Client Info must not be announced as 0x80 --
    import c18
    ctx.include(c18.run, ('R18.3', 'R18.7'), 'R03.10')
    # ---- R03.12 every demand-active is answered: after a deactivate-all the automaton is back in the state that answers one (reset rule R12.5
    # of C12, same facts); a reset that is missing or unreachable leaves the second demand-active of a session without confirm-active/finalization
    import c12
    ctx.include(c12.run, ('R12.5',), 'R03.12')
    # ---- R03.11 the MCS connect response is decoded under BER (T.125 is BER: servers use non-minimal length forms): read_connect_response (or
    # connect, if it was merged into it) hands the payload to asn1::from_ber
    import inline as _inl
    mcb = _inl.force(P, ctx.body('core::mcs::Client::<S>::connect'), ['core::mcs::Client::<S>::read_connect_response'])
    dec = [c.callee for c in mcb.calls if c.callee in ('nla::asn1::from_ber', 'nla::asn1::from_der')]
    ctx.check(dec == ['nla::asn1::from_ber'], 'R03.11', 'connect_response:ber', 'the connect response is parsed with asn1::from_ber', mcb.where(),
              'the MCS connect response is decoded with %s: a connect response using long-form lengths (what servers send) is rejected, so connecting '
              'fails right after connect-initial' % ([d.rsplit('::', 1)[-1] for d in dec] or 'no ASN.1 decoder'))

def field_stores(P, owner, field):
    """[(body key, operand stored)] for every statement storing into owner.field"""
    out = []
    for k, b in P.bodies.items():
        for bi in range(b.n):
            if b.blocks[bi]['cleanup']:
                continue
            for stt in b.blocks[bi]['stmts']:
                if stt['s'] == 'assign' and stt['place']['p'] and stt['place']['p'][-1].get('name') == field \
                        and stt['place']['p'][-1].get('owner') == owner:
                    rv = stt['rv']
                    op = rv.get('op') or (rv['ops'][0] if rv.get('ops') else None)
                    out.append((k, op))
    return out
