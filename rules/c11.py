"""C11 - user input is transmitted exactly once, in order, with exact values (DESIGN.md 4/C11, Appendix A.4)."""
from common import *
from c02 import writers
import dsl

META = {
    'level': 'other',
    'explanation': 'Static path analysis on the MIR of the current tree: (R11.1) along the chain RdpClient::write -> '
                   'write_input_event -> write_data_pdu -> write_pdu -> mcs::write -> x224::write -> tpkt::write -> Link::write every '
                   'successful path performs exactly one call of the next layer and no path performs more (no queue, no retry, '
                   'no duplicate), so submission order is wire order; (R11.2) unsupported event kinds return Err - with a kind try_write does not forgive - without any '
                   'transport write; (R11.3) for each of the 4 buttons x 2 press states and 2 key states the pointer/keyboard '
                   'flag word computed on that path is constant-folded and compared with the MS-RDPBCGR table, x/y/scancode '
                   'flow unchanged into xPos/yPos/keyCode, and event types are INPUT_EVENT_MOUSE / INPUT_EVENT_SCANCODE; '
                   '(R11.4) the input gate (state Data) and share-id provenance rules shared with C12/C03.',
    'assumptions': ['the bytes of the enclosing headers are covered by C04/C14/C18, not here'],
    'trusted_base': ['rustc nightly MIR construction', 'mirfacts exporter', 'rules/c11.py, dsl.py, sym.py, facts.py'],
}

G = 'core::global::Client::'
CHAIN = [
    ('core::client::RdpClient::<S>::write', G + 'write_input_event'),
    (G + 'write_input_event', G + 'write_data_pdu'),
    (G + 'write_data_pdu', G + 'write_pdu'),
    (G + 'write_pdu', 'core::mcs::Client::<S>::write'),
    ('core::mcs::Client::<S>::write', 'core::x224::Client::<S>::write'),
    ('core::x224::Client::<S>::write', 'core::tpkt::Client::<S>::write'),
    ('core::tpkt::Client::<S>::write', 'model::link::Link::<S>::write'),
    ('model::link::Link::<S>::write', re.compile(r'^model::link::Stream::<S>::write(_all)?$')),
]
# MS-RDPBCGR 2.2.8.1.1.3.1.1.3 (pointer flags) / 2.2.8.1.1.3.1.1.1 (keyboard flags)
PTR = {'Left': 0x1000, 'Right': 0x2000, 'Middle': 0x4000, 'None': 0x0800}
PTR_DOWN = 0x8000
KBD_RELEASE = 0x8000


def run(ctx):
    P = ctx.prog
    W = writers(P)

    # ---- R11.1 exactly one call per layer ------------------------------------------------------
    for fn, nxt in CHAIN:
        body = ctx.body(fn)
        n_ok = 0
        for path, st in feasible_paths(body, P, limit=100000):
            v = strip(st.env.get(0))
            if v[0] == 'unknown' and not st.cut:
                continue
            rk = ret_kind(st.env.get(0))
            cnt = len(path_calls(st, nxt))
            incyc = any(body.in_cycle(ev[1].block) for ev in path_calls(st, nxt))
            if rk == 'ok' or rk.startswith('call:'):
                n_ok += 1
                ctx.check(cnt == 1 and not incyc, 'R11.1', 'chain:%s:ok' % fn,
                          '%s success path: exactly one call of the next layer' % fn.rsplit('::', 1)[-1], body.where(),
                          '%s has a success path with %d calls of the next layer (%s): an event would be lost or duplicated' % (fn, cnt, nxt))
            else:
                ctx.check(cnt <= 1 and not incyc, 'R11.1', 'chain:%s:err' % fn,
                          '%s failing path: at most one call of the next layer' % fn.rsplit('::', 1)[-1], body.where(),
                          '%s calls the next layer %d times on a failing path' % (fn, cnt))
        ctx.floor('R11.1', 'success paths of %s' % fn.rsplit('::', 1)[-1], n_ok, 1)

    # ---- R11.2 / R11.3 RdpClient::write -----------------------------------------------------------
    rw = ctx.body('core::client::RdpClient::<S>::write')
    ev_disc = dict(P.enum_variants('core::event::RdpEvent'))
    btn = {d: n for n, d in P.enum_variants('core::event::PointerButton')}
    seen_ptr = set()
    seen_key = set()
    n_refuse = 0
    for path, st in feasible_paths(rw, P):
        v = strip(st.env.get(0))
        if v[0] == 'unknown':
            continue
        kind = None
        button = None
        downs = []
        for ev in path_branches(st):
            d = strip(ev[2])
            if d[0] == 'discr' and unwrap_cast(d[1]) == ('param', 2) and kind is None:
                kind = ev[3] if ev[3] is not None else 'other'
            elif d[0] == 'discr' and d[1][0] == 'field' and d[1][2] == 'button':
                button = btn.get(ev[3], 'None') if ev[3] is not None else 'other'
            elif d[0] == 'field' and d[2] == 'down':
                downs.append(branch_truth(ev))
            elif d[0] == 'un' and d[1] == 'Not' and strip(d[2])[0] == 'field' and strip(d[2])[2] == 'down':
                downs.append(not branch_truth(ev))
        calls = [ev for ev in st.events if ev[0] == 'call']
        wcalls = [ev for ev in calls if (ev[1].callee in W)]
        if kind == ev_disc['Pointer']:
            pe = path_calls(st, 'core::global::ts_pointer_event')
            if not pe or len(downs) != 1:
                ctx.fail('R11.3', 'pointer:shape', 'pointer arm of RdpClient::write no longer builds one ts_pointer_event under one press test', rw.where())
                continue
            flags = fold(fold_enum(P, resolve(st, pe[0][2][0])))
            tbl = [n for n in walk(flags) if n[0] == 'index' and strip(n[1])[0] == 'const' and isinstance(strip(n[1])[2], str) and strip(n[1])[2].startswith('[')]
            if button is None and tbl:
                # the button flag comes from a constant table indexed by the button (`BUTTON_FLAGS[pointer.button as usize]`): the single path
                # stands for every button; the table entry is substituted for each discriminant in turn
                from c13 import subst_expr
                vals = [int(re.match(r'\s*(-?\d+)', x).group(1)) for x in strip(tbl[0][1])[2].strip('[]').split(',') if re.match(r'\s*-?\d+', x)]
                for dsc, nm in sorted(btn.items()):
                    if nm not in PTR:
                        continue
                    fv_ = ('unknown',)
                    if 0 <= dsc < len(vals):
                        f2 = fold(subst_expr(flags, tbl[0], ('const', vals[dsc], str(vals[dsc]))))
                        fl_ = [fold(c) for c in walk(f2) if c[0] == 'agg' and c[2] == 'Some']
                        fv_ = fold(fl_[0][3][0]) if fl_ else ('unknown',)
                    want_ = PTR[nm] | (PTR_DOWN if downs[0] else 0)
                    seen_ptr.add((nm, downs[0]))
                    ctx.check(fv_[0] == 'const' and fv_[1] == want_, 'R11.3', 'pointer:flags:%s:%s' % (nm, downs[0]),
                              'button %s, down=%s -> pointerFlags 0x%04x (table entry %d)' % (nm, downs[0], want_, dsc), rw.where(),
                              'RdpClient::write encodes button %s / down=%s as pointerFlags %s (table entry %d), MS-RDPBCGR requires 0x%04x'
                              % (nm, downs[0], hex(fv_[1]) if fv_[0] == 'const' and fv_[1] is not None else show(fv_), dsc, want_))
                idx_ok = any(n[0] == 'discr' and strip(n[1])[0] == 'field' and strip(n[1])[2] == 'button' for n in walk(tbl[0][2])) or \
                    any(n[0] == 'field' and n[2] == 'button' for n in walk(tbl[0][2]))
                ctx.check(idx_ok and len(vals) == len(btn), 'R11.3', 'pointer:table_index', 'the flag table has one entry per button and is indexed by the event\'s button', rw.where(),
                          'the pointer-flag table of RdpClient::write is not indexed by pointer.button / does not have one entry per button')
                continue_xy = True
            else:
                continue_xy = False
            fl = [fold(c) for c in walk(flags) if c[0] == 'agg' and c[2] == 'Some']
            fv = fold(fl[0][3][0]) if fl else ('unknown',)
            bname = button if button in PTR else 'None'
            want = PTR[bname] | (PTR_DOWN if downs[0] else 0)
            if not continue_xy:
                seen_ptr.add((bname, downs[0]))
            ctx.check(continue_xy or (fv[0] == 'const' and fv[1] == want), 'R11.3', 'pointer:flags:%s:%s' % (bname, downs[0]),
                      'button %s, down=%s -> pointerFlags 0x%04x' % (bname, downs[0], want), rw.where(),
                      'RdpClient::write encodes button %s / down=%s as pointerFlags %s, MS-RDPBCGR requires 0x%04x'
                      % (bname, downs[0], hex(fv[1]) if fv[0] == 'const' and fv[1] is not None else show(fv), want))
            xs = [unwrap_cast(resolve(st, pe[0][2][i])) for i in (1, 2)]
            okxy = all(x[0] == 'agg' and x[2] == 'Some' and unwrap_cast(x[3][0])[0] == 'field' and unwrap_cast(x[3][0])[2] == nm
                       for x, nm in zip(xs, ('x', 'y')))
            ctx.check(okxy, 'R11.3', 'pointer:xy', 'ts_pointer_event receives (flags, pointer.x, pointer.y) in that order', rw.where(),
                      'RdpClient::write does not pass pointer.x / pointer.y unchanged and in order to ts_pointer_event')
        elif kind == ev_disc['Key']:
            ke = path_calls(st, 'core::global::ts_keyboard_event')
            if not ke or len(downs) != 1:
                ctx.fail('R11.3', 'key:shape', 'key arm of RdpClient::write no longer builds one ts_keyboard_event under one press test', rw.where())
                continue
            fl = [c for c in walk(fold(fold_enum(P, resolve(st, ke[0][2][0])))) if c[0] == 'agg' and c[2] == 'Some']
            fv = fold(fl[0][3][0]) if fl else ('unknown',)
            want = 0 if downs[0] else KBD_RELEASE
            seen_key.add(downs[0])
            ctx.check(fv[0] == 'const' and fv[1] == want, 'R11.3', 'key:flags:%s' % downs[0],
                      'key down=%s -> keyboardFlags 0x%04x' % (downs[0], want), rw.where(),
                      'RdpClient::write encodes key down=%s as keyboardFlags %s instead of 0x%04x' % (downs[0], show(fv), want))
            code = unwrap_cast(resolve(st, ke[0][2][1]))
            ctx.check(code[0] == 'agg' and code[2] == 'Some' and unwrap_cast(code[3][0])[0] == 'field' and unwrap_cast(code[3][0])[2] == 'code',
                      'R11.3', 'key:code', 'ts_keyboard_event receives key.code unchanged', rw.where())
        else:
            n_refuse += 1
            ctx.check(ret_kind(v) == 'err' and not wcalls, 'R11.2', 'refuse', 'other event kinds are refused with Err and write nothing', rw.where(),
                      'RdpClient::write does not refuse an unsupported event kind cleanly (returns %s, transport calls %s)' % (ret_kind(v), [e[1].callee for e in wcalls]))
            # the refusal must stay visible through try_write, which forgives exactly InvalidAutomata (R12.3)
            kinds = [unwrap_cast(c[3][0])[2] if unwrap_cast(c[3][0])[0] == 'agg' else None
                     for c in calls_in(resolve(st, v), 'model::error::RdpError::new') if c[0] == 'call']
            ctx.check(bool(kinds) and 'InvalidAutomata' not in kinds and None not in kinds, 'R11.2', 'refuse:kind',
                      'the refusal carries an error kind that try_write does not forgive (%s)' % kinds, rw.where(),
                      'RdpClient::write refuses an unsupported event with kind %s: try_write maps InvalidAutomata to Ok(()), so the refusal is reported as success' % kinds)
    ctx.check(seen_ptr == {(b, d) for b in PTR for d in (True, False)}, 'R11.3', 'pointer:coverage',
              'all 4 buttons x 2 press states are encoded on a distinct path', rw.where(),
              'RdpClient::write does not distinguish all button/press combinations (found %s)' % sorted(seen_ptr, key=str))
    ctx.check(seen_key == {True, False}, 'R11.3', 'key:coverage', 'both key states are encoded', rw.where())
    ctx.floor('R11.2', 'refusing paths of RdpClient::write', n_refuse, 1)

    # ---- R11.3b field mapping inside the constructors ------------------------------------------------
    def field_src(fn, key, param):
        """on every path the field is the parameter passed through unchanged: Option::unwrap_or(param, 0) wrapped in the wire type,
        no arithmetic / bit operation / other parameter / value computed elsewhere"""
        n_pass = 0
        for sh, fl in dsl.returned_components(P, fn):
            f = [x for x in fl if x.key == key]
            if not f:
                return False
            nodes = list(walk(f[0].expr))
            if not any(n[0] == 'param' for n in nodes):
                # a path on which the optional parameter is absent (`match p { None => DEFAULT, .. }`): the field must be a constant
                if any(n[0] in ('unknown', 'mutated', 'index', 'upd', 'deref') or
                       (n[0] == 'call' and not re.search(r'Vec::<T>::new$|::to_vec$|::into$|::from$', n[1])) for n in nodes):
                    return False
                continue
            if not any(n == ('param', param) for n in nodes):
                return False
            for n in nodes:
                if n[0] in ('bin', 'un', 'unknown', 'mutated', 'index', 'upd'):
                    return False
                if n[0] == 'param' and n[1] != param:
                    return False
                if n[0] == 'call' and not re.search(r'Option::<T>::(unwrap_or|unwrap_or_else|unwrap_or_default)$|::to_vec$|::into$|::from$|::new$', n[1]):
                    return False
                if n[0] == 'const' and n[1] not in (0, None):
                    return False
            n_pass += 1
        return n_pass > 0
    for fn, key, param in (('core::global::ts_pointer_event', 'pointerFlags', 1), ('core::global::ts_pointer_event', 'xPos', 2),
                           ('core::global::ts_pointer_event', 'yPos', 3), ('core::global::ts_keyboard_event', 'keyboardFlags', 1),
                           ('core::global::ts_keyboard_event', 'keyCode', 2), ('core::global::ts_input_event', 'messageType', 1),
                           ('core::global::ts_input_event', 'slowPathInputData', 2)):
        ctx.check(field_src(fn, key, param), 'R11.3', 'map:%s:%s' % (fn, key), '%s: field %s is initialised from parameter %d'
                  % (fn.rsplit('::', 1)[-1], key, param), ctx.body(fn).where(),
                  '%s initialises %s from something else than its parameter %d (values would be swapped or lost)' % (fn, key, param))
    for fn, keys in (('core::global::ts_pointer_event', ['pointerFlags', 'xPos', 'yPos']),
                     ('core::global::ts_keyboard_event', ['keyboardFlags', 'keyCode', 'pad2Octets']),
                     ('core::global::ts_input_event', ['eventTime', 'messageType', 'slowPathInputData']),
                     ('core::global::ts_input_pdu_data', ['numEvents', 'pad2Octets', 'slowPathInputEvents'])):
        for sh, fl in dsl.returned_components(P, fn):
            ctx.check([f.key for f in fl] == keys and all(f.kind in ('U16', 'U32', 'Bytes', 'Array') for f in fl), 'R11.3', 'layout:%s' % fn,
                      '%s lays out %s' % (fn.rsplit('::', 1)[-1], keys), sh.body.where(),
                      '%s field order/kinds %s differ from the TS_INPUT layout %s' % (fn, [(f.key, f.kind) for f in fl], keys))
    tags = {}
    for fn in ('core::global::ts_pointer_event', 'core::global::ts_keyboard_event'):
        for sh in dsl.shapes_of(P, fn):
            tags[fn] = sh.tag
    it = dict(P.enum_variants('core::global::InputEventType'))
    ctx.check(tags.get('core::global::ts_pointer_event') == ('event_type', 'InputEventMouse') and it['InputEventMouse'] == 0x8001
              and tags.get('core::global::ts_keyboard_event') == ('event_type', 'InputEventScancode') and it['InputEventScancode'] == 0x0004,
              'R11.3', 'event_types', 'pointer events are INPUT_EVENT_MOUSE (0x8001), key events INPUT_EVENT_SCANCODE (0x0004)', '',
              'input event type tags/values differ from MS-RDPBCGR: %s %s' % (tags, it))
    # write_input_event wraps the *same* event's type and message, once
    wi = ctx.body(G + 'write_input_event')
    for path, st in feasible_paths(wi, P):
        ie = path_calls(st, 'core::global::ts_input_event')
        if not ie:
            continue
        a0, a1 = resolve(st, ie[0][2][0]), resolve(st, ie[0][2][1])
        good = any(n[0] == 'field' and n[2] == 'event_type' and unwrap_cast(n[1]) == ('param', 2) for n in walk(a0)) \
            and has_call(a1, 'model::data::to_vec') and any(n[0] == 'field' and n[2] == 'message' for n in walk(a1))
        pushes = path_calls(st, 'std::vec::Vec::<T, A>::push')
        n_el = len(pushes)
        if not pushes:
            # the one-element trame written as a literal list (`vec![Box::new(event)]`)
            ft = path_calls(st, 'model::data::Array::<T>::from_trame')
            lst = [n for n in walk(resolve(st, ft[0][2][0]))] if ft else []
            lst = [n for n in lst if n[0] == 'list']
            n_el = len(lst[0][1]) if lst else 0
        ctx.check(good and n_el == 1 and len(ie) == 1, 'R11.3', 'wrap',
                  'write_input_event wraps exactly this event (its type and its serialised message) as the single element of the input PDU',
                  wi.where(), 'write_input_event does not wrap exactly the submitted event once')
    # numEvents = arity of the same array
    for sh, fl in dsl.returned_components(P, 'core::global::ts_input_pdu_data'):
        ne = [f for f in fl if f.key == 'numEvents'][0]
        arr = [f for f in fl if f.key == 'slowPathInputEvents'][0]
        good = has_call(ne.expr, re.compile(r'Vec::<T, A>::len$')) and has_call(ne.expr, 'model::data::Array::<T>::inner')
        ctx.check(good, 'R11.3', 'numEvents', 'numEvents is the element count of the events array', sh.body.where(),
                  'ts_input_pdu_data does not compute numEvents from the events array')
        break

    # ---- R11.4 gate and share id (shared with C12 / C03) ------------------------------------------------
    import c12
    sub = type(ctx)(P, ctx.prop, ctx.tier)
    c12_gate(sub, P, W)
    for f in sub.findings:
        ctx.fail('R11.4', f['key'], f['msg'], f['where'])
    for i in sub.instances:
        if i['verdict'] == 'holds':
            ctx.ok('R11.4', i['what'], i['where'])


    # ---- R11.5 the input window closes only on a deactivate-all (rule R12.5 of C12, same facts): no other PDU may silently suspend input ----
    import c12
    ctx.include(c12.run, ('R12.5',), 'R11.5')
    # ---- R11.6 input PDUs carry the MCS-assigned identifiers (rule R03.5 of C03): user id as PDU source, channel id as target --------
    import c03
    ctx.include(c03.run, ('R03.5',), 'R11.6')
    # ---- R11.7 one submitted event = one frame on the link: Link::write serialises into a fresh buffer and delivers exactly that (R14.1):
    # a buffer kept across calls re-sends an event whose write failed, or appends the tail of a longer earlier message
    import c14
    ctx.include(c14.run, ('R14.1',), 'R11.7')

def c12_gate(ctx, P, W):
    """input is written only in state Data; every accepted demand-active refreshes the share id used by input PDUs"""
    import c12
    wi = ctx.body(G + 'write_input_event')
    for path, st in feasible_paths(wi, P):
        calls = [ev for ev in st.events if ev[0] == 'call']
        wcalls = [ev for ev in calls if c12.callee_in(P, ev[1], W)]
        frm = c12.state_test(st, P)
        if wcalls:
            ctx.check(frm == 'Data', 'R12.3', 'input:write_state', 'input is written only in state Data', wi.where(),
                      'write_input_event writes to the channel in state %s' % frm)
    da = ctx.body(G + 'read_demand_active_pdu')
    for path, st in feasible_paths(da, P, limit=200000):
        v = strip(st.env.get(0))
        if not (v[0] == 'agg' and v[2] == 'Ok' and fold(v[3][0])[0] == 'const' and fold(v[3][0])[1] == 1):
            continue
        st_share = [ev for ev in st.events if ev[0] == 'store' and ev[2]['p'] and ev[2]['p'][-1].get('name') == 'share_id']
        ctx.check(len(st_share) == 1, 'R03.5', 'global:share_id_store', 'every accepted demand-active (re)stores the share id that input PDUs carry',
                  da.where(), 'read_demand_active_pdu accepts a demand-active without (re)storing its shareId: input PDUs after a reactivation carry the closed share\'s id')
