#!/bin/bash
# usage: try_patch.sh <patch.diff> <ID> [<ID>...]   (-R as first arg: reverse-apply)
# Apply a patch to a scratch copy of /repo (never /repo itself), extract facts once, run the listed checks on it.
# Prints one line per check: "<ID> rc=<n>" plus the FINDING lines. Exit 0 always (a reporting tool).
set -uo pipefail
REV=""
if [ "$1" = "-R" ]; then REV="-R"; shift; fi
PATCH=$(readlink -f "$1"); shift
VERIF="$(cd "$(dirname "$0")/.." && pwd)"
SCR=$(mktemp -d "${VERIF_SCRATCH:-/var/tmp}/rdpmut.XXXXXX")
trap 'rm -rf "$SCR"' EXIT
rsync -a --exclude target --exclude .git /repo/ "$SCR/repo/"
( cd "$SCR/repo" && patch -p1 $REV --quiet < "$PATCH" ) || { echo "PATCH-DOES-NOT-APPLY $PATCH"; exit 0; }
"$VERIF/bin/extract.sh" "$SCR/repo" "$SCR/facts" gui 2> "$SCR/err" || { echo "MUTANT-DOES-NOT-BUILD $PATCH"; head -20 "$SCR/err"; exit 0; }
for id in "$@"; do
  out=$("$VERIF/check" "$id" --facts "$SCR/facts" --no-evidence 2>&1); rc=$?
  echo "$id rc=$rc"
  echo "$out" | grep -E "^(FINDING|KNOWN-FINDING)" | cut -c1-260
done
