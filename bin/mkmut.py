#!/usr/bin/env python3
"""usage: mkmut.py <prop> <name> <file relative to /repo> <old> <new> [<old2> <new2> ...]
Writes /verif/mutants/<prop>/<name>.patch (a unified diff against /repo's current file) for the sensitivity corpus."""
import sys, os, difflib
prop, name, rel = sys.argv[1:4]
pairs = sys.argv[4:]
src = open('/repo/' + rel).read()
new = src
for i in range(0, len(pairs), 2):
    old, rep = pairs[i].encode().decode('unicode_escape'), pairs[i + 1].encode().decode('unicode_escape')
    assert new.count(old) == 1, 'pattern occurs %d times: %r' % (new.count(old), old)
    new = new.replace(old, rep)
d = ''.join(difflib.unified_diff(src.splitlines(True), new.splitlines(True), 'a/' + rel, 'b/' + rel))
os.makedirs('/verif/mutants/%s' % prop, exist_ok=True)
open('/verif/mutants/%s/%s.patch' % (prop, name), 'w').write(d)
print('wrote mutants/%s/%s.patch (%d lines)' % (prop, name, d.count('\n')))
