#!/usr/bin/env python3
"""Development-time tool (never run by a registered check): for every `fixed` entry of known_findings.json, reverse-apply the
fix commit to a scratch copy of /repo, run that property's check on it and record the finding keys it reports under `keys`.
Shows that each repaired defect is still detected if it returns.  usage: revert_fixes.py [--jobs N] [--write]"""
import json, os, re, subprocess, sys, tempfile
from concurrent.futures import ThreadPoolExecutor
V = os.path.dirname(os.path.dirname(os.path.abspath(__file__)))
kf = json.load(open(V + '/known_findings.json'))
items = [e for e in kf['findings'] if e['status'] == 'fixed']
jobs = int(sys.argv[sys.argv.index('--jobs') + 1]) if '--jobs' in sys.argv else 8
EXTRA = {'da1eb11': ['C05'], 'ef625fc': ['C06'], '027816c': ['C19'], 'b2d0f47': ['C18']}


def run(e):
    with tempfile.NamedTemporaryFile('w', suffix='.diff', delete=False, dir='/var/tmp') as f:
        f.write(subprocess.run(['git', '-C', '/repo', 'show', e['commit']], capture_output=True, text=True).stdout)
        p = f.name
    props = [e['property']] + EXTRA.get(e['commit'], [])
    out = subprocess.run([V + '/bin/try_patch.sh', '-R', p] + props, capture_output=True, text=True).stdout
    os.unlink(p)
    res, cur = {}, None
    for line in out.splitlines():
        m = re.match(r'^(C\d+) rc=(\d+)', line)
        if m:
            cur = m.group(1)
            res[cur] = {'rc': int(m.group(2)), 'keys': []}
        elif line.startswith('FINDING') and cur:
            res[cur]['keys'].append(line.split(' ', 2)[2].split(' ')[0] if ' :: ' in line else line)
    return e, res, out.splitlines()[0] if out else ''


with ThreadPoolExecutor(jobs) as ex:
    for e, res, first in ex.map(run, items):
        own = res.get(e['property'], {})
        print('%-8s %s rc=%s keys=%d %s %s' % (e['commit'], e['property'], own.get('rc'), len(own.get('keys', [])), first if not res else '',
                                             {k: v['rc'] for k, v in res.items() if k != e['property']}))
        e['keys'] = sorted(set(own.get('keys', [])))
        e['detected_when_reverted'] = own.get('rc') == 1
        e.pop('key', None)
if '--write' in sys.argv:
    json.dump(kf, open(V + '/known_findings.json', 'w'), indent=1)
