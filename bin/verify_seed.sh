#!/bin/bash
# usage: verify_seed.sh <seed dir with patch.diff + demo.diff>
# Confirms in a scratch copy of /repo (outside /repo and /verif) that the seeded change
#  (1) builds incl. the GUI feature, (2) keeps the 39 unit tests green, (3) the demo passes without it and (4) fails with it.
# Demo tests are recognised as the tests that are not in the 39-test baseline.
set -uo pipefail
D=$(readlink -f "$1")
SCR=$(mktemp -d /var/tmp/rdpseed.XXXXXX)
trap 'rm -rf "$SCR"' EXIT
export CARGO_NET_OFFLINE=true CARGO_TARGET_DIR=${SEED_TARGET:-/var/tmp/rdpseed-target}
rsync -a --exclude target --exclude .git /repo/ "$SCR/repo/"
cd "$SCR/repo"
run() { cargo test --offline --no-fail-fast "$@" 2>&1 | grep -E "^test result|^error" ; }
# patch only
patch -p1 --quiet < "$D/patch.diff" || { echo "RESULT patch-does-not-apply"; exit 1; }
b=$(cargo build --offline --features mstsc-rs 2>&1 | grep -cE "^error")
t=$(run --lib | head -1)
echo "patch-only: build_errors=$b lib: $t"
# demo only
patch -p1 -R --quiet < "$D/patch.diff"
patch -p1 --quiet < "$D/demo.diff" || { echo "RESULT demo-does-not-apply"; exit 1; }
d0=$(run --lib --tests ${SEED_TEST_ARGS:-} | tr '\n' ' ')
echo "demo-only: $d0"
# demo + patch
patch -p1 --quiet < "$D/patch.diff" || { echo "RESULT patch-does-not-apply-on-demo"; exit 1; }
d1=$(run --lib --tests ${SEED_TEST_ARGS:-} | tr '\n' ' ')
echo "demo+patch: $d1"
ok=1
[ "$b" = "0" ] || ok=0
echo "$t" | grep -q "39 passed; 0 failed" || ok=0
echo "$d0" | grep -q "FAILED\|error" && ok=0
echo "$d1" | grep -q "FAILED" || ok=0
[ $ok = 1 ] && echo "RESULT confirmed" || echo "RESULT NOT-confirmed"
