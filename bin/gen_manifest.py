#!/usr/bin/env python3
"""regenerates /verif/MANIFEST.json from the rule modules present in rules/ (one source of truth)"""
import json, os, sys, importlib
V = os.path.dirname(os.path.dirname(os.path.abspath(__file__)))
sys.path.insert(0, os.path.join(V, 'rules'))
props = [json.loads(l) for l in open(os.path.join(V, 'properties.jsonl'))]
NA = {
    'C09': 'pixel exactness is an input/output relation of a numeric algorithm over all encodings; no clause of it is a shape of the code that a static rule could decide without re-stating the decoder (DESIGN.md C09)',
}
TECH = {
    'C01': 'path-complete dominance + provenance analysis over rustc MIR (custom rustc_private driver)',
    'C02': 'must-pass-through / guard-dominance / interprocedural argument-position tracing over rustc MIR',
    'C03': 'call-order (protocol sequence) extraction per feasible MIR path, def-use provenance of identifiers, layout tables vs specification',
    'C04': 'message-DSL shape model recovered from MIR; writer/reader length-relation agreement; fixed-size field table',
    'C05': 'hostile-panic analysis: panic-site census from MIR + interprocedural interval abstract interpretation + shape-flow analysis of the message DSL',
    'C06': 'hostile-panic analysis: panic-site census from MIR + interprocedural interval abstract interpretation + shape-flow analysis of the message DSL',
    'C07': 'hostile-panic analysis: panic-site census from MIR + interprocedural interval abstract interpretation + ASN.1 / DSL shape-flow analysis',
    'C08': 'panic-site census, typestate argument for the row cursor, result-buffer provenance, interval abstract interpretation, loop-guard cycle rule over rustc MIR',
    'C10': 'loop / call-count path analysis, field-mapping provenance, DSL option-target rules, bit-provenance of the flag test over rustc MIR',
    'C11': 'path call-count along the write chain, constant folding of flag words per path, mapping table vs specification',
    'C12': 'automaton extraction from MIR paths compared with a reference automaton; effect placement; who-may-store rule',
    'C13': 'static path enumeration with symbolic size expressions over rustc MIR (path-sum, guard exactness), bit-provenance abstract domain',
    'C14': 'result-consumption and Result-propagation dataflow, frame-shape and guard-constant rules over rustc MIR',
    'C15': 'sibling-function expression agreement, offset partial-sum rule on the DSL shape model, argument-order provenance',
    'C16': 'dominance + provenance of the tamper check, call-order agreement of seal/unseal, key-role wiring table, once-per-message increment rule',
    'C17': 'field-sensitive forward information-flow (taint) over MIR, per-path flag constant folding, control-dependence of the empty-credential choice',
    'C18': 'sibling agreement rules between write/read/length implementations, enum<->From discriminant agreement, bit-provenance of PER length coding',
    'C20': 'CFG loop-exit rule on the Err edge, guard liveness (drop placement), anti-pattern detector, call-count rule over rustc MIR',
}
checks, na = [], []
for p in props:
    pid = p['id']
    if os.path.exists(os.path.join(V, 'rules', pid.lower() + '.py')):
        m = importlib.import_module(pid.lower())
        checks.append({
            'property_id': pid,
            'quick_cmd': './check %s --tier quick' % pid,
            'thorough_cmd': './check %s --tier thorough' % pid,
            'evidence_file': 'evidence/%s.json' % pid,
            'replay_cmd_template': 'cat {path}',
            'engine': 'mirfacts+rules',
            'level_claimed': {'category': 'other', 'text': m.META['explanation'], 'design_ref': 'DESIGN.md section 4/' + pid},
            'level_note': 'assumes: ' + '; '.join(m.META.get('assumptions', [])) + ' | trusted base: ' + ', '.join(m.META.get('trusted_base', [])),
            'technique': m.META.get('technique', TECH.get(pid, 'static analysis over rustc MIR facts (custom rustc_private driver + rule engine)')),
        })
    else:
        na.append({'property_id': pid, 'reason': NA.get(pid, 'static check not built yet in this tree (see DESIGN.md for the planned rules); not claimed')})
man = {
    'version': 1,
    'setup_cmd': 'bin/setup.sh',
    'hooks': {'guard': 'citronneur_rdp_rs_verif',
              'enable': 'none: the static analysis reads /repo as it is; no hook or instrumentation commit exists',
              'baseline_off_cmd': 'cd /repo && cargo test --workspace --no-fail-fast --offline --lib',
              'source_commits': [], 'add_only': True},
    'engines': [
        {'name': 'mirfacts', 'path': 'mirfacts/', 'serves_properties': [c['property_id'] for c in checks],
         'kind_free_text': 'rustc_private driver (nightly) exporting MIR bodies with resolved callees, ADT and impl tables as JSON facts'},
        {'name': 'rules', 'path': 'rules/', 'serves_properties': [c['property_id'] for c in checks],
         'kind_free_text': 'python3 rule engine: CFG/dominance, path enumeration with symbolic expressions, provenance slices, per-property rules'},
    ],
    'checks': checks,
    'not_applicable': na,
    'notes': 'Technique family: static analysis only. Every check re-extracts MIR facts from /repo\'s current working tree (scratch copy under /var/tmp, removed on exit). See DESIGN.md.',
}
json.dump(man, open(os.path.join(V, 'MANIFEST.json'), 'w'), indent=1)
print('checks:', [c['property_id'] for c in checks], 'not_applicable:', [n['property_id'] for n in na])
