#!/usr/bin/env python3
"""Sensitivity corpus runner (DESIGN.md section 7): applies every mutant / seeded change to a scratch copy of /repo,
runs the checks on it and records which checks report it.  usage: corpus.py [--only PID] [--jobs N] [--all-checks]
A reporting tool for developing the checker; it never touches /repo."""
import json, os, re, subprocess, sys, glob
from concurrent.futures import ThreadPoolExecutor
V = os.path.dirname(os.path.dirname(os.path.abspath(__file__)))
args = sys.argv[1:]
only = args[args.index('--only') + 1] if '--only' in args else None
jobs = int(args[args.index('--jobs') + 1]) if '--jobs' in args else 8
man = json.load(open(os.path.join(V, 'MANIFEST.json')))
claimed = sorted(set([c['property_id'] for c in man['checks']] + [os.path.basename(f)[:-3].upper() for f in glob.glob(V + '/rules/c[0-9][0-9].py')]))
items = []
for f in sorted(glob.glob(V + '/mutants/*/*.patch')):
    pid = os.path.basename(os.path.dirname(f))
    items.append({'id': 'mutant:%s/%s' % (pid, os.path.basename(f)[:-6]), 'patch': f, 'expect': pid})
for d in sorted(glob.glob(V + '/seeded/*')):
    meta = json.load(open(d + '/meta.json'))
    items.append({'id': 'seeded:' + os.path.basename(d), 'patch': d + '/patch.diff', 'expect': meta['property']})
if only:
    items = [i for i in items if i['expect'] == only or only in i['id']]

def run(it):
    checks = claimed if ('--all-checks' in args or it['expect'] in ('neg', 'limits')) else [it['expect']] if it['expect'] in claimed else []
    if '--all-checks' not in args and it['expect'] not in ('neg', 'limits'):
        checks = sorted(set(checks + [c for c in claimed]))  # always run all: cross-detection is recorded
    if '--full' not in args:
        # C08 and C19 (90-100 s each) depend only on the codec, the bitmap event and the GUI painter: skipped for patches that touch none of them
        touched = set(re.findall(r'^\+\+\+ [^/\s]*/(\S+)', open(it['patch']).read(), re.M))
        slow = {'C08': ('src/codec/rle.rs', 'src/core/event.rs'), 'C19': ('src/codec/rle.rs', 'src/core/event.rs', 'src/bin/mstsc-rs.rs')}
        checks = [c for c in checks if c not in slow or c == it['expect'] or touched & set(slow[c])]
    r = subprocess.run([V + '/bin/try_patch.sh', it['patch']] + checks, capture_output=True, text=True)
    out = r.stdout
    res = {}
    cur = None
    for line in out.splitlines():
        m = re.match(r'^(C\d+) rc=(\d+)', line)
        if m:
            cur = m.group(1); res[cur] = {'rc': int(m.group(2)), 'findings': []}
        elif line.startswith('FINDING') and cur:
            res[cur]['findings'].append(line.split(' :: ')[0].split(' ', 2)[2] if ' :: ' in line else line)
    it['result'] = res
    it['note'] = out.splitlines()[0] if out and not res else ''
    return it

with ThreadPoolExecutor(jobs) as ex:
    done = list(ex.map(run, items))
miss = []
for it in done:
    det = sorted(k for k, v in it['result'].items() if v['rc'] == 1)
    it['detected_by'] = det
    exp = it['expect']
    status = 'n/a'
    if exp == 'neg':
        status = 'ok' if not det else 'FALSE-ALARM'
    elif exp == 'limits':
        # behaviour-preserving rewrites the engines cannot prove (DESIGN.md 9.11): reported, documented, not counted as negative controls
        status = 'documented-limit' if det else 'limit-now-silent'
    elif exp in claimed:
        status = 'caught' if exp in det else ('caught-elsewhere' if det else 'MISSED')
    else:
        status = 'unclaimed' + ('(caught by %s)' % ','.join(det) if det else '')
    it['status'] = status
    print('%-44s expect=%-4s %-18s detected_by=%s %s' % (it['id'], exp, status, ','.join(det), it['note']))
    if status in ('MISSED', 'FALSE-ALARM'):
        miss.append(it['id'])
res = [{k: v for k, v in it.items() if k != 'patch'} for it in done]
outp = os.path.join(V, 'corpus_results.json')
if only and os.path.exists(outp):
    # partial run: merge into the existing results
    old = {i['id']: i for i in json.load(open(outp))}
    for i in res:
        old[i['id']] = i
    res = [old[k] for k in sorted(old)]
json.dump(res, open(outp, 'w'), indent=1)
print('items=%d problems=%s' % (len(done), miss))
