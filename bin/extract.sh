#!/bin/bash
# usage: extract.sh <srcdir> <outdir> [config]
# Extract MIR facts of <srcdir> (a checkout of rdp-rs; normally /repo) into <outdir>/*.json.
# config: gui (default: --features mstsc-rs --lib --bins) | lib (--lib) | integration (--features integration --lib)
# Exit 2 (and print the compiler output) if the tree does not build.
set -uo pipefail
SRC=${1:?srcdir}; OUT=${2:?outdir}; CFG=${3:-gui}
VERIF="$(cd "$(dirname "$0")/.." && pwd)"
DRV="$VERIF/mirfacts/target/debug/mirfacts"
[ -x "$DRV" ] && [ -f "$VERIF/build/nom-5.1.3/.patched" ] || "$VERIF/bin/setup.sh" >&2 || exit 2
SCR=$(mktemp -d "${VERIF_SCRATCH:-/var/tmp}/rdpverif.XXXXXX")
trap 'rm -rf "$SCR"' EXIT
mkdir -p "$SCR/repo" "$OUT"
rsync -a --exclude target --exclude .git "$SRC"/ "$SCR/repo/"
[ -f "$SCR/repo/Cargo.lock" ] || cp "$VERIF/spec/Cargo.lock.fallback" "$SCR/repo/Cargo.lock"
printf '\n[patch.crates-io]\nnom = { path = "%s" }\n' "$VERIF/build/nom-5.1.3" >> "$SCR/repo/Cargo.toml"
case "$CFG" in
  gui) FLAGS="--features mstsc-rs --lib --bins";;
  lib) FLAGS="--lib";;
  integration) FLAGS="--features integration --lib";;
  *) echo "unknown config $CFG" >&2; exit 2;;
esac
cd "$SCR/repo"
export CARGO_NET_OFFLINE=true
LD_LIBRARY_PATH="$(rustc +nightly --print sysroot)/lib" \
RUSTFLAGS="-Zmir-opt-level=0 -Awarnings" \
RUSTC_WORKSPACE_WRAPPER="$DRV" \
MIRFACTS_OUT="$OUT" \
CARGO_TARGET_DIR="$SCR/target" \
  cargo +nightly check --offline $FLAGS >"$SCR/cargo.log" 2>&1
rc=$?
if [ $rc -ne 0 ]; then
  echo "extract: /repo does not build under the analysis configuration '$CFG':" >&2
  grep -E "^(error|warning: unused)" -A12 "$SCR/cargo.log" | head -80 >&2
  exit 2
fi
[ -s "$OUT/rdp.json" ] || { echo "extract: no facts written" >&2; tail -20 "$SCR/cargo.log" >&2; exit 2; }
exit 0
