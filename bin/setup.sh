#!/bin/bash
# Build the analysis front-end from files on disk only (offline).
set -euo pipefail
cd "$(dirname "$0")/.."
export CARGO_NET_OFFLINE=true
mkdir -p build
# 1. the rustc_private driver
( cd mirfacts && cargo +nightly build --offline 2>&1 | tail -2 )
test -x mirfacts/target/debug/mirfacts
# 2. nom 5.1.3 with the one-character macro patch needed by nightly (see DESIGN.md 2.1)
if [ ! -f build/nom-5.1.3/.patched ]; then
  rm -rf build/nom-5.1.3
  crate=$(ls ~/.cargo/registry/cache/*/nom-5.1.3.crate | head -1)
  tar -xzf "$crate" -C build
  f=build/nom-5.1.3/src/combinator/macros.rs
  # line 541: `map_res!(__impl $i, $submac!($($args)*), call!($g));`  -> drop the trailing `;`
  if ! sed -n '541p' "$f" | grep -q 'map_res!(__impl \$i, \$submac!(\$(\$args)\*), call!(\$g));'; then
    echo "setup: nom-5.1.3 macros.rs:541 is not the expected line" >&2; exit 1
  fi
  sed -i '541s/call!(\$g));/call!($g))/' "$f"
  touch build/nom-5.1.3/.patched
fi
echo "setup ok"
