#!/bin/bash
# runs every registered quick (or $1 = thorough) check against /repo and rewrites evidence/<id>.json; prints one line per check
cd "$(dirname "$0")/.."
tier=${1:-quick}
ids=$(python3 -c "import json; print(' '.join(c['property_id'] for c in json.load(open('MANIFEST.json'))['checks']))")
printf '%s\n' $ids | xargs -P ${JOBS:-5} -I{} sh -c "./check {} --tier $tier > /var/tmp/check_{}.log 2>&1; echo {} rc=\$? \$(tail -1 /var/tmp/check_{}.log | cut -c1-150)"
