// mirfacts: rustc_private driver that dumps the type-checked program (MIR bodies with resolved
// callees, ADT tables, trait impl tables) of the crate being compiled as JSON facts.
// Injected with RUSTC_WORKSPACE_WRAPPER under `cargo +nightly check`; see ../bin/extract.sh.
#![feature(rustc_private)]
#![allow(rustc::internal)]

extern crate rustc_abi;
extern crate rustc_driver;
extern crate rustc_hir;
extern crate rustc_interface;
extern crate rustc_middle;
extern crate rustc_span;

use rustc_driver::Compilation;
use rustc_hir::def::DefKind;
use rustc_hir::def_id::{DefId, LocalDefId};
use rustc_middle::mir::*;
use rustc_middle::ty::print::with_no_trimmed_paths;
use rustc_middle::ty::{self, GenericArgsRef, Instance, Ty, TyCtxt, TypingEnv};
use std::fmt::Write as _;

// ---------------------------------------------------------------------------------------------
// tiny JSON value
enum J {
    Null,
    B(bool),
    I(i128),
    S(String),
    A(Vec<J>),
    O(Vec<(&'static str, J)>),
}
fn esc(s: &str, out: &mut String) {
    out.push('"');
    for c in s.chars() {
        match c {
            '"' => out.push_str("\\\""),
            '\\' => out.push_str("\\\\"),
            '\n' => out.push_str("\\n"),
            '\r' => out.push_str("\\r"),
            '\t' => out.push_str("\\t"),
            c if (c as u32) < 0x20 => {
                let _ = write!(out, "\\u{:04x}", c as u32);
            }
            c => out.push(c),
        }
    }
    out.push('"');
}
impl J {
    fn w(&self, out: &mut String) {
        match self {
            J::Null => out.push_str("null"),
            J::B(b) => out.push_str(if *b { "true" } else { "false" }),
            J::I(i) => {
                let _ = write!(out, "{}", i);
            }
            J::S(s) => esc(s, out),
            J::A(v) => {
                out.push('[');
                for (i, x) in v.iter().enumerate() {
                    if i > 0 {
                        out.push(',');
                    }
                    x.w(out);
                }
                out.push(']');
            }
            J::O(v) => {
                out.push('{');
                for (i, (k, x)) in v.iter().enumerate() {
                    if i > 0 {
                        out.push(',');
                    }
                    esc(k, out);
                    out.push(':');
                    x.w(out);
                }
                out.push('}');
            }
        }
    }
}
fn s<T: Into<String>>(x: T) -> J {
    J::S(x.into())
}

// ---------------------------------------------------------------------------------------------
struct Cx<'tcx> {
    tcx: TyCtxt<'tcx>,
}

impl<'tcx> Cx<'tcx> {
    fn path(&self, d: DefId) -> String {
        with_no_trimmed_paths!(self.tcx.def_path_str(d))
    }
    fn ty(&self, t: Ty<'tcx>) -> String {
        with_no_trimmed_paths!(format!("{}", t))
    }
    fn span(&self, sp: rustc_span::Span) -> J {
        let sm = self.tcx.sess.source_map();
        // use the outermost call site for macro expansions too: keep both
        let lo = sm.lookup_char_pos(sp.lo());
        let mut v = vec![
            ("file", s(format!("{}", lo.file.name.prefer_local_unconditionally()))),
            ("line", J::I(lo.line as i128)),
            ("col", J::I(lo.col.0 as i128 + 1)),
        ];
        if sp.from_expansion() {
            let cs = sp.source_callsite();
            let lo2 = sm.lookup_char_pos(cs.lo());
            v.push(("exp", J::B(true)));
            v.push(("cs_line", J::I(lo2.line as i128)));
            v.push(("cs_file", s(format!("{}", lo2.file.name.prefer_local_unconditionally()))));
            if let Some(md) = sp.macro_backtrace().next() {
                v.push(("macro", s(format!("{}", md.kind.descr()))));
                v.push(("macro_name", s(format!("{:?}", md.kind))));
            }
        }
        J::O(v)
    }
    fn int_info(&self, t: Ty<'tcx>) -> J {
        match t.kind() {
            ty::Int(i) => J::A(vec![J::I(i.bit_width().unwrap_or(64) as i128), J::B(true)]),
            ty::Uint(u) => J::A(vec![J::I(u.bit_width().unwrap_or(64) as i128), J::B(false)]),
            ty::Bool => J::A(vec![J::I(1), J::B(false)]),
            ty::Char => J::A(vec![J::I(32), J::B(false)]),
            _ => J::Null,
        }
    }
    fn generic_args(&self, args: GenericArgsRef<'tcx>) -> J {
        J::A(args.iter().map(|a| s(with_no_trimmed_paths!(format!("{}", a)))).collect())
    }

    fn place(&self, body: &Body<'tcx>, p: &Place<'tcx>) -> J {
        let mut proj = vec![];
        for (base, elem) in p.iter_projections() {
            let bty = base.ty(body, self.tcx);
            match elem {
                ProjectionElem::Deref => {
                    let k = if bty.ty.is_raw_ptr() {
                        "raw"
                    } else if bty.ty.is_box() {
                        "box"
                    } else {
                        "ref"
                    };
                    proj.push(J::O(vec![("k", s("deref")), ("ptr", s(k))]));
                }
                ProjectionElem::Field(f, fty) => {
                    let mut name = format!("{}", f.index());
                    let mut owner = String::new();
                    if let ty::Adt(adt, _) = bty.ty.kind() {
                        let vi = bty.variant_index.unwrap_or(rustc_abi::FIRST_VARIANT);
                        if vi.index() < adt.variants().len() {
                            let var = adt.variant(vi);
                            if f.index() < var.fields.len() {
                                name = var.fields[f].name.to_string();
                            }
                            owner = self.path(adt.did());
                            if adt.is_enum() {
                                owner = format!("{}::{}", owner, var.name);
                            }
                        }
                    }
                    proj.push(J::O(vec![
                        ("k", s("field")),
                        ("i", J::I(f.index() as i128)),
                        ("name", s(name)),
                        ("owner", s(owner)),
                        ("ty", s(self.ty(fty))),
                    ]));
                }
                ProjectionElem::Index(l) => {
                    proj.push(J::O(vec![("k", s("index")), ("l", J::I(l.index() as i128))]));
                }
                ProjectionElem::ConstantIndex { offset, min_length, from_end } => {
                    proj.push(J::O(vec![
                        ("k", s("cindex")),
                        ("offset", J::I(offset as i128)),
                        ("min_length", J::I(min_length as i128)),
                        ("from_end", J::B(from_end)),
                    ]));
                }
                ProjectionElem::Subslice { from, to, from_end } => {
                    proj.push(J::O(vec![
                        ("k", s("subslice")),
                        ("from", J::I(from as i128)),
                        ("to", J::I(to as i128)),
                        ("from_end", J::B(from_end)),
                    ]));
                }
                ProjectionElem::Downcast(name, vi) => {
                    proj.push(J::O(vec![
                        ("k", s("downcast")),
                        ("variant", s(name.map(|n| n.to_string()).unwrap_or_default())),
                        ("vi", J::I(vi.index() as i128)),
                    ]));
                }
                other => {
                    proj.push(J::O(vec![("k", s("other")), ("dbg", s(format!("{:?}", other)))]));
                }
            }
        }
        J::O(vec![("l", J::I(p.local.index() as i128)), ("p", J::A(proj))])
    }

    fn constant(&self, body_def: DefId, c: &ConstOperand<'tcx>) -> J {
        let cty = c.const_.ty();
        let mut v = vec![("k", s("const")), ("ty", s(self.ty(cty)))];
        match cty.kind() {
            ty::FnDef(d, args) => {
                v.push(("fn", s(self.path(*d))));
                v.push(("fn_args", self.generic_args(args)));
            }
            ty::Closure(d, _) => {
                v.push(("closure", s(self.path(*d))));
            }
            _ => {}
        }
        let env = TypingEnv::post_analysis(self.tcx, body_def);
        let is_scalar = matches!(cty.kind(), ty::Int(_) | ty::Uint(_) | ty::Bool | ty::Char);
        if is_scalar {
            if let Some(si) = c.const_.try_eval_scalar_int(self.tcx, env) {
                let size = si.size();
                let bits = si.to_bits(size);
                let val: i128 = match cty.kind() {
                    ty::Int(_) => size.sign_extend(bits) as i128,
                    _ => bits as i128,
                };
                v.push(("val", J::I(val)));
            }
        }
        if let Const::Unevaluated(uv, _) = c.const_ {
            if let Some(pi) = uv.promoted {
                v.push(("promoted", J::I(pi.index() as i128)));
            } else if !is_scalar {
                // a named constant (`const MAGIC: &[u8] = b"..."`): its evaluated value, printed like a literal, so that
                // replacing a literal by a named constant does not change what the rules see
                if let Ok(val) = c.const_.eval(self.tcx, env, c.span) {
                    let shown = with_no_trimmed_paths!(format!("{}", Const::Val(val, cty)));
                    v.push(("sv", s(shown)));
                }
            }
        }
        v.push(("s", s(with_no_trimmed_paths!(format!("{}", c.const_)))));
        J::O(v)
    }

    fn operand(&self, body_def: DefId, body: &Body<'tcx>, o: &Operand<'tcx>) -> J {
        match o {
            Operand::Copy(p) => J::O(vec![("k", s("copy")), ("place", self.place(body, p))]),
            Operand::Move(p) => J::O(vec![("k", s("move")), ("place", self.place(body, p))]),
            Operand::Constant(c) => self.constant(body_def, c),
            other => J::O(vec![("k", s("other")), ("dbg", s(format!("{:?}", other)))]),
        }
    }

    fn rvalue(&self, body_def: DefId, body: &Body<'tcx>, rv: &Rvalue<'tcx>) -> J {
        let op = |o: &Operand<'tcx>| self.operand(body_def, body, o);
        match rv {
            Rvalue::Use(o, ..) => J::O(vec![("rv", s("use")), ("op", op(o))]),
            Rvalue::Repeat(o, n) => J::O(vec![
                ("rv", s("repeat")),
                ("op", op(o)),
                ("n", s(with_no_trimmed_paths!(format!("{}", n)))),
            ]),
            Rvalue::Ref(_, bk, p) => J::O(vec![
                ("rv", s("ref")),
                ("mut", J::B(matches!(bk, BorrowKind::Mut { .. }))),
                ("place", self.place(body, p)),
            ]),
            Rvalue::RawPtr(k, p) => J::O(vec![
                ("rv", s("rawptr")),
                ("mut", J::B(matches!(k, RawPtrKind::Mut))),
                ("place", self.place(body, p)),
            ]),
            Rvalue::Cast(k, o, t) => J::O(vec![
                ("rv", s("cast")),
                ("kind", s(format!("{:?}", k))),
                ("op", op(o)),
                ("ty", s(self.ty(*t))),
                ("from_ty", s(self.ty(o.ty(body, self.tcx)))),
                ("int", self.int_info(*t)),
                ("from_int", self.int_info(o.ty(body, self.tcx))),
            ]),
            Rvalue::BinaryOp(b, ops) => J::O(vec![
                ("rv", s("bin")),
                ("op", s(format!("{:?}", b))),
                ("l", op(&ops.0)),
                ("r", op(&ops.1)),
                ("int", self.int_info(ops.0.ty(body, self.tcx))),
            ]),
            Rvalue::UnaryOp(u, o) => J::O(vec![
                ("rv", s("un")),
                ("op", s(format!("{:?}", u))),
                ("x", op(o)),
                ("x_ty", s(self.ty(o.ty(body, self.tcx)))),
            ]),
            Rvalue::Discriminant(p) => {
                let pty = p.ty(body, self.tcx).ty;
                J::O(vec![
                    ("rv", s("discr")),
                    ("place", self.place(body, p)),
                    ("ty", s(self.ty(pty))),
                ])
            }
            Rvalue::Aggregate(k, ops) => {
                let mut v = vec![("rv", s("agg"))];
                match &**k {
                    AggregateKind::Array(t) => {
                        v.push(("kind", s("array")));
                        v.push(("ty", s(self.ty(*t))));
                    }
                    AggregateKind::Tuple => v.push(("kind", s("tuple"))),
                    AggregateKind::Adt(d, vi, args, _, _) => {
                        v.push(("kind", s("adt")));
                        v.push(("adt", s(self.path(*d))));
                        let adt = self.tcx.adt_def(*d);
                        v.push(("variant", s(adt.variant(*vi).name.to_string())));
                        v.push(("vi", J::I(vi.index() as i128)));
                        v.push(("args", self.generic_args(args)));
                        v.push((
                            "fields",
                            J::A(adt.variant(*vi).fields.iter().map(|f| s(f.name.to_string())).collect()),
                        ));
                    }
                    AggregateKind::Closure(d, _) => {
                        v.push(("kind", s("closure")));
                        v.push(("closure", s(self.path(*d))));
                    }
                    other => {
                        v.push(("kind", s("other")));
                        v.push(("dbg", s(format!("{:?}", other))));
                    }
                }
                v.push(("ops", J::A(ops.iter().map(|o| op(o)).collect())));
                J::O(v)
            }
            Rvalue::CopyForDeref(p) => J::O(vec![
                ("rv", s("use")),
                ("op", J::O(vec![("k", s("copy")), ("place", self.place(body, p))])),
            ]),
            other => J::O(vec![("rv", s("other")), ("dbg", s(format!("{:?}", other)))]),
        }
    }

    fn fn_sig_unsafe(&self, d: DefId) -> bool {
        match self.tcx.def_kind(d) {
            DefKind::Fn | DefKind::AssocFn => self.tcx.fn_sig(d).skip_binder().safety().is_unsafe(),
            _ => false,
        }
    }

    fn terminator(&self, body_def: DefId, body: &Body<'tcx>, t: &Terminator<'tcx>) -> J {
        let op = |o: &Operand<'tcx>| self.operand(body_def, body, o);
        let mut v: Vec<(&'static str, J)> = vec![];
        match &t.kind {
            TerminatorKind::Goto { target } => {
                v.push(("t", s("goto")));
                v.push(("target", J::I(target.index() as i128)));
            }
            TerminatorKind::SwitchInt { discr, targets } => {
                v.push(("t", s("switch")));
                v.push(("discr", op(discr)));
                v.push(("discr_ty", s(self.ty(discr.ty(body, self.tcx)))));
                let mut vals = vec![];
                let mut tg = vec![];
                for (val, bb) in targets.iter() {
                    vals.push(J::I(val as i128));
                    tg.push(J::I(bb.index() as i128));
                }
                v.push(("vals", J::A(vals)));
                v.push(("targets", J::A(tg)));
                v.push(("otherwise", J::I(targets.otherwise().index() as i128)));
            }
            TerminatorKind::Return => v.push(("t", s("return"))),
            TerminatorKind::Unreachable => v.push(("t", s("unreachable"))),
            TerminatorKind::UnwindResume => v.push(("t", s("resume"))),
            TerminatorKind::UnwindTerminate(_) => v.push(("t", s("abort"))),
            TerminatorKind::Drop { place, target, unwind, .. } => {
                v.push(("t", s("drop")));
                v.push(("place", self.place(body, place)));
                v.push(("place_ty", s(self.ty(place.ty(body, self.tcx).ty))));
                v.push(("target", J::I(target.index() as i128)));
                if let UnwindAction::Cleanup(bb) = unwind {
                    v.push(("unwind", J::I(bb.index() as i128)));
                }
            }
            TerminatorKind::Call { func, args, destination, target, unwind, fn_span, .. } => {
                v.push(("t", s("call")));
                v.push(("func", op(func)));
                let fty = func.ty(body, self.tcx);
                if let ty::FnDef(d, gargs) = fty.kind() {
                    v.push(("callee", s(self.path(*d))));
                    v.push(("callee_args", self.generic_args(gargs)));
                    v.push(("callee_unsafe", J::B(self.fn_sig_unsafe(*d))));
                    v.push(("callee_local", J::B(d.is_local())));
                    if let Some(tr) = self.tcx.trait_of_assoc(*d) {
                        v.push(("callee_trait", s(self.path(tr))));
                    }
                    let env = TypingEnv::post_analysis(self.tcx, body_def);
                    let is_fn = matches!(self.tcx.def_kind(*d), DefKind::Fn | DefKind::AssocFn);
                    if is_fn {
                        if let Ok(Some(inst)) = Instance::try_resolve(self.tcx, env, *d, gargs) {
                            let rd = inst.def_id();
                            v.push(("resolved", s(self.path(rd))));
                            v.push(("resolved_kind", s(format!("{:?}", inst.def).split('(').next().unwrap_or("").to_string())));
                            v.push(("resolved_args", self.generic_args(inst.args)));
                            v.push(("resolved_local", J::B(rd.is_local())));
                        }
                    }
                }
                v.push(("args", J::A(args.iter().map(|a| op(&a.node)).collect())));
                v.push(("arg_tys", J::A(args.iter().map(|a| s(self.ty(a.node.ty(body, self.tcx)))).collect())));
                v.push(("dest", self.place(body, destination)));
                if let Some(bb) = target {
                    v.push(("target", J::I(bb.index() as i128)));
                }
                if let UnwindAction::Cleanup(bb) = unwind {
                    v.push(("unwind", J::I(bb.index() as i128)));
                }
                v.push(("fn_span", self.span(*fn_span)));
            }
            TerminatorKind::Assert { cond, expected, msg, target, unwind } => {
                v.push(("t", s("assert")));
                v.push(("cond", op(cond)));
                v.push(("expected", J::B(*expected)));
                v.push(("target", J::I(target.index() as i128)));
                if let UnwindAction::Cleanup(bb) = unwind {
                    v.push(("unwind", J::I(bb.index() as i128)));
                }
                let m = match &**msg {
                    AssertKind::BoundsCheck { len, index } => {
                        J::O(vec![("k", s("bounds")), ("len", op(len)), ("index", op(index))])
                    }
                    AssertKind::Overflow(b, l, r) => J::O(vec![
                        ("k", s("overflow")),
                        ("op", s(format!("{:?}", b))),
                        ("l", op(l)),
                        ("r", op(r)),
                        ("int", self.int_info(l.ty(body, self.tcx))),
                    ]),
                    AssertKind::OverflowNeg(o) => J::O(vec![("k", s("overflow_neg")), ("x", op(o))]),
                    AssertKind::DivisionByZero(o) => J::O(vec![("k", s("div0")), ("x", op(o))]),
                    AssertKind::RemainderByZero(o) => J::O(vec![("k", s("rem0")), ("x", op(o))]),
                    other => J::O(vec![("k", s("other")), ("dbg", s(format!("{:?}", other)))]),
                };
                v.push(("msg", m));
            }
            TerminatorKind::FalseEdge { real_target, .. } => {
                v.push(("t", s("goto")));
                v.push(("target", J::I(real_target.index() as i128)));
            }
            TerminatorKind::FalseUnwind { real_target, .. } => {
                v.push(("t", s("goto")));
                v.push(("target", J::I(real_target.index() as i128)));
            }
            other => {
                v.push(("t", s("other")));
                v.push(("dbg", s(format!("{:?}", other))));
            }
        }
        v.push(("span", self.span(t.source_info.span)));
        J::O(v)
    }

    fn blocks_json(&self, did: DefId, body: &Body<'tcx>) -> Vec<J> {
        let tcx = self.tcx;
        let mut blocks = vec![];
        for (_bb, data) in body.basic_blocks.iter_enumerated() {
            let mut stmts = vec![];
            for st in &data.statements {
                match &st.kind {
                    StatementKind::Assign(b) => {
                        let (p, rv) = &**b;
                        stmts.push(J::O(vec![
                            ("s", s("assign")),
                            ("place", self.place(body, p)),
                            ("rv", self.rvalue(did, body, rv)),
                            ("line", J::I(tcx.sess.source_map().lookup_char_pos(st.source_info.span.lo()).line as i128)),
                            ("exp", J::B(st.source_info.span.from_expansion())),
                        ]));
                    }
                    StatementKind::SetDiscriminant { place, variant_index } => {
                        stmts.push(J::O(vec![
                            ("s", s("setdiscr")),
                            ("place", self.place(body, place)),
                            ("vi", J::I(variant_index.index() as i128)),
                        ]));
                    }
                    StatementKind::Intrinsic(i) => {
                        stmts.push(J::O(vec![("s", s("intrinsic")), ("dbg", s(format!("{:?}", i)))]));
                    }
                    _ => {}
                }
            }
            let term = self.terminator(did, body, data.terminator());
            blocks.push(J::O(vec![
                ("stmts", J::A(stmts)),
                ("term", term),
                ("cleanup", J::B(data.is_cleanup)),
            ]));
        }
        blocks
    }

    fn body(&self, ldid: LocalDefId) -> Option<J> {
        let tcx = self.tcx;
        let did = ldid.to_def_id();
        let kind = tcx.def_kind(did);
        let is_closure = matches!(kind, DefKind::Closure);
        if !matches!(kind, DefKind::Fn | DefKind::AssocFn | DefKind::Closure) {
            return None;
        }
        let body: &Body<'tcx> = tcx.optimized_mir(did);
        let mut v: Vec<(&'static str, J)> = vec![];
        v.push(("path", s(self.path(did))));
        v.push(("kind", s(format!("{:?}", kind))));
        v.push(("span", self.span(tcx.def_span(did))));
        v.push(("arg_count", J::I(body.arg_count as i128)));
        if is_closure {
            v.push(("parent", s(self.path(tcx.typeck_root_def_id(did)))));
            v.push(("lexical_parent", s(self.path(tcx.parent(did)))));
        } else {
            v.push(("unsafe_fn", J::B(self.fn_sig_unsafe(did))));
            v.push(("vis", s(format!("{:?}", tcx.visibility(did)))));
            if let Some(imp) = tcx.impl_of_assoc(did) {
                v.push(("impl_self", s(self.ty(tcx.type_of(imp).instantiate_identity().skip_norm_wip()))));
                if let Some(tr) = tcx.impl_opt_trait_ref(imp) {
                    v.push(("impl_trait", s(self.path(tr.skip_binder().def_id))));
                }
            }
        }
        v.push(("generics", J::I(tcx.generics_of(did).count() as i128)));
        // debug names
        let mut names: Vec<Option<String>> = vec![None; body.local_decls.len()];
        for vdi in &body.var_debug_info {
            if let VarDebugInfoContents::Place(p) = &vdi.value {
                if p.projection.is_empty() {
                    names[p.local.index()] = Some(vdi.name.to_string());
                }
            }
        }
        let mut locals = vec![];
        for (l, d) in body.local_decls.iter_enumerated() {
            locals.push(J::O(vec![
                ("ty", s(self.ty(d.ty))),
                ("name", names[l.index()].clone().map(J::S).unwrap_or(J::Null)),
                ("int", self.int_info(d.ty)),
            ]));
        }
        v.push(("locals", J::A(locals)));
        // upvar debug info for closures (captured variable names)
        if is_closure {
            let mut ups = vec![];
            for vdi in &body.var_debug_info {
                if let VarDebugInfoContents::Place(p) = &vdi.value {
                    if !p.projection.is_empty() {
                        ups.push(J::O(vec![("name", s(vdi.name.to_string())), ("place", self.place(body, p))]));
                    }
                }
            }
            v.push(("upvars", J::A(ups)));
        }
        let blocks = self.blocks_json(did, body);
        v.push(("blocks", J::A(blocks)));
        // promoted constants (e.g. `&PDUType::PdutypeDatapdu` used in comparisons)
        let mut proms = vec![];
        for (_pi, pbody) in tcx.promoted_mir(did).iter_enumerated() {
            let mut plocals = vec![];
            for (_l, d) in pbody.local_decls.iter_enumerated() {
                plocals.push(J::O(vec![("ty", s(self.ty(d.ty))), ("name", J::Null), ("int", self.int_info(d.ty))]));
            }
            proms.push(J::O(vec![("locals", J::A(plocals)), ("blocks", J::A(self.blocks_json(did, pbody)))]));
        }
        v.push(("promoted", J::A(proms)));
        Some(J::O(v))
    }

    fn adts(&self) -> J {
        let tcx = self.tcx;
        let mut out = vec![];
        for ldid in tcx.hir_crate_items(()).definitions() {
            let did = ldid.to_def_id();
            match tcx.def_kind(did) {
                DefKind::Struct | DefKind::Enum | DefKind::Union => {
                    let adt = tcx.adt_def(did);
                    let mut variants = vec![];
                    let discrs: Vec<_> = if adt.is_enum() { adt.discriminants(tcx).collect() } else { vec![] };
                    for (vi, var) in adt.variants().iter_enumerated() {
                        let fields: Vec<J> = var
                            .fields
                            .iter()
                            .map(|f| {
                                J::O(vec![
                                    ("name", s(f.name.to_string())),
                                    ("ty", s(self.ty(tcx.type_of(f.did).instantiate_identity().skip_norm_wip()))),
                                ])
                            })
                            .collect();
                        let mut vv = vec![("name", s(var.name.to_string())), ("fields", J::A(fields))];
                        if let Some((_, d)) = discrs.iter().find(|(i, _)| *i == vi) {
                            vv.push(("discr", J::I(d.val as i128)));
                        }
                        variants.push(J::O(vv));
                    }
                    out.push(J::O(vec![
                        ("path", s(self.path(did))),
                        ("kind", s(format!("{:?}", tcx.def_kind(did)))),
                        ("repr_int", s(format!("{:?}", adt.repr().int))),
                        ("variants", J::A(variants)),
                        ("span", self.span(tcx.def_span(did))),
                    ]));
                }
                _ => {}
            }
        }
        J::A(out)
    }

    fn impls(&self) -> J {
        let tcx = self.tcx;
        let mut out = vec![];
        for ldid in tcx.hir_crate_items(()).definitions() {
            let did = ldid.to_def_id();
            if let DefKind::Impl { of_trait } = tcx.def_kind(did) {
                let self_ty = self.ty(tcx.type_of(did).instantiate_identity().skip_norm_wip());
                let mut v = vec![("self_ty", s(self_ty)), ("path", s(self.path(did)))];
                if of_trait {
                    if let Some(tr) = tcx.impl_opt_trait_ref(did) {
                        v.push(("trait", s(self.path(tr.skip_binder().def_id))));
                    }
                }
                let mut items = vec![];
                for it in tcx.associated_items(did).in_definition_order() {
                    let mut iv = vec![("name", s(it.name().to_string())), ("path", s(self.path(it.def_id)))];
                    if let Some(t) = it.trait_item_def_id() {
                        iv.push(("trait_item", s(self.path(t))));
                    }
                    items.push(J::O(iv));
                }
                v.push(("items", J::A(items)));
                out.push(J::O(v));
            }
        }
        J::A(out)
    }
}

struct Cb;
impl rustc_driver::Callbacks for Cb {
    fn after_analysis<'tcx>(&mut self, _c: &rustc_interface::interface::Compiler, tcx: TyCtxt<'tcx>) -> Compilation {
        let outdir = match std::env::var("MIRFACTS_OUT") {
            Ok(d) => d,
            Err(_) => return Compilation::Continue,
        };
        let krate = tcx.crate_name(rustc_hir::def_id::LOCAL_CRATE).to_string();
        let want = std::env::var("MIRFACTS_CRATES").unwrap_or_default();
        if !want.is_empty() && !want.split(',').any(|w| w == krate) {
            return Compilation::Continue;
        }
        let cx = Cx { tcx };
        let mut bodies = vec![];
        for ldid in tcx.hir_body_owners() {
            if let Some(b) = cx.body(ldid) {
                bodies.push(b);
            }
        }
        let is_test = tcx.sess.opts.test;
        let top = J::O(vec![
            ("crate", s(krate.clone())),
            ("test_harness", J::B(is_test)),
            ("bodies", J::A(bodies)),
            ("adts", cx.adts()),
            ("impls", cx.impls()),
        ]);
        let mut out = String::new();
        top.w(&mut out);
        let suffix = if is_test { ".test" } else { "" };
        let path = format!("{}/{}{}.json", outdir, krate, suffix);
        std::fs::write(&path, out).expect("write facts");
        Compilation::Continue
    }
}

fn main() {
    let mut args: Vec<String> = std::env::args().collect();
    // RUSTC_WORKSPACE_WRAPPER passes the path of the real rustc as argv[1]
    if args.len() > 1 && (args[1].ends_with("rustc") || args[1].contains("/rustc")) {
        args.remove(1);
    }
    rustc_driver::run_compiler(&args, &mut Cb);
}
